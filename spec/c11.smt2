; ---- C11: the documented .lfsconfig allow-list (docs/man/git-lfs-config.adoc, section LFSCONFIG,
; "including and limited to") ----
; strlit lit_dot "."
; strlit lit_lfs "lfs"
; strlit lit_remote "remote"
; strlit lit_access "access"
; strlit lit_lfsurl "lfsurl"
; strlit lit_k_allowincompletepush "lfs.allowincompletepush"
; strlit lit_k_fetchexclude "lfs.fetchexclude"
; strlit lit_k_fetchinclude "lfs.fetchinclude"
; strlit lit_k_gitprotocol "lfs.gitprotocol"
; strlit lit_k_locksverify "lfs.locksverify"
; strlit lit_k_pushurl "lfs.pushurl"
; strlit lit_k_skipdownloaderrors "lfs.skipdownloaderrors"
; strlit lit_k_url "lfs.url"
(declare-fun str_split (V V) V)
(define-fun docsafe ((key V)) Bool
  (let ((p (str_split key lit_dot)))
    (or (= key lit_k_allowincompletepush) (= key lit_k_fetchexclude) (= key lit_k_fetchinclude)
        (= key lit_k_gitprotocol) (= key lit_k_locksverify) (= key lit_k_pushurl)
        (= key lit_k_skipdownloaderrors) (= key lit_k_url)
        (and (>= (sl_len p) 3) (= (at_V p 0) lit_lfs) (= (at_V p (- (sl_len p) 1)) lit_access))
        (and (>= (sl_len p) 3) (= (at_V p 0) lit_remote) (= (at_V p (- (sl_len p) 1)) lit_lfsurl)))))
(declare-fun str_casefold (V) V)
; strlit lit_extension "extension"
; strlit lit_priority "priority"
(define-fun ext_priority_key ((key V)) Bool
  (let ((p (str_split key lit_dot)))
    (and (= (sl_len p) 4) (= (at_V p 0) lit_lfs) (= (at_V p 1) lit_extension) (= (at_V p 3) lit_priority))))
