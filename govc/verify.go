package main

import (
	"fmt"
	"go/token"
	"go/types"
	"strings"
	"sync"

	"golang.org/x/tools/go/ssa"
)

var closureArgOnce sync.Once

type FuncResult struct {
	Func     string
	Key      string
	VC       *VC
	Err      string
	Covers   []*Obligation
	Contract *Contract
}

// verifyFunction generates all obligations of one function under contract.
func (w *World) verifyFunction(fn *ssa.Function, ct *Contract, tag string, safeAll bool) *FuncResult {
	vc := newVC()
	vc.litNames = w.db.LitNames
	for _, l := range w.db.LitOrder {
		vc.strLit(l)
	}
	// ghost state is registered up front, so that a havoc which keeps ghost state
	// also keeps the components no instruction has mentioned yet
	for _, name := range w.db.GhostOrd {
		vc.keyGhost(w.db.Ghosts[name])
	}
	e := &encoder{prog: w.prog, vc: vc, db: w.db, tag: tag, root: fn, modPath: w.modPath, obSeq: map[string]int{}, safeAll: safeAll, assertHit: map[int]bool{}}
	e.consts = &constInfo{e: e, repoFns: w.repoFns, status: map[*ssa.Global]*globalConst{}}
	e.ms = &modsetCache{e: e, memo: map[*ssa.Function]*modSet{}, active: map[*ssa.Function]bool{}}
	res := &FuncResult{Func: shortFn(fn), Key: fn.String(), VC: vc, Contract: ct}
	defer func() {
		if r := recover(); r != nil {
			res.Err = fmt.Sprintf("encoder panic: %v", r)
			if w.debug {
				panic(r)
			}
		}
	}()
	closureArgOnce.Do(func() {
		closureArgOK = func(c *ssa.CallCommon, idx int) bool {
			f := c.StaticCallee()
			if f == nil {
				return false
			}
			k := f.String()
			if f.Origin() != nil {
				if _, ok := w.db.ByKey[k]; !ok {
					k = f.Origin().String()
				}
			}
			cct := w.db.ByKey[k]
			if cct == nil {
				return false
			}
			names := cct.Params
			if len(names) == 0 {
				for _, p := range f.Params {
					names = append(names, p.Name())
				}
			}
			for _, inv := range cct.Invokes {
				if idx < len(names) && names[idx] == inv.Param {
					return true
				}
			}
			return false
		}
	})
	fr := e.newFrame(fn, nil)
	fr.contract = ct
	if err := fr.analyse(); err != nil {
		res.Err = err.Error()
		return res
	}
	st := &State{reach: "true", base: "0", ver: map[string]string{}}
	vc.declConst("hw!0", "Int")
	vc.fact("(> hw!0 0)")
	st.hw = "hw!0"
	for i, p := range fn.Params {
		t := vc.freshConst("p."+p.Name(), sortOf(p.Type()))
		fr.vals[p] = t
		fr.assumeType(t, p.Type(), st)
		if t.Sort == SInt {
			switch p.Type().Underlying().(type) {
			case *types.Pointer, *types.Map, *types.Chan:
				vc.fact(fmt.Sprintf("(< (rootref %s) hw!0)", t.S))
			}
		}
		if t.Sort == SV && types.IsInterface(p.Type()) {
			// whatever an interface parameter refers to existed at entry
			vc.fact(fmt.Sprintf("(< (vref %s) hw!0)", t.S))
		}
		if i == 0 && fn.Signature.Recv() != nil {
			if _, isPtr := p.Type().Underlying().(*types.Pointer); isPtr && !comparesWithNil(fn, p) {
				vc.fact(fmt.Sprintf("(not (= %s 0))", t.S))
			}
		}
	}
	for _, fv := range fn.FreeVars {
		t := vc.freshConst("fv."+fv.Name(), SInt)
		fr.vals[fv] = t
		vc.fact(fmt.Sprintf("(and (not (= %s 0)) (< %s hw!0))", t.S, t.S))
	}
	fr.entryArgs = nil
	// requires
	fr.old = st.clone()
	if ct != nil {
		for _, cl := range ct.Requires {
			ctx := fr.specCtx(st, st, nil, nil, 0)
			g, err := ctx.trBool(cl.Expr)
			if err != nil {
				res.Err = fmt.Sprintf("requires %q: %v", cl.Text, err)
				return res
			}
			vc.fact(g)
			for _, tg := range cl.Tags {
				if tg == "inv" {
					vc.usedSpecs["contract:invariant assumed for "+shortFn(fn)+": "+cl.Text] = true
				}
			}
		}
	}
	fr.old = st.clone()
	if ct != nil && ct.HasMods && !ct.Trusted {
		e.frameCheck = true
		ctx := fr.specCtx(st, st, nil, nil, 0)
		for _, m := range ct.Mods {
			e.declMods = append(e.declMods, fr.declaredMods(m, ctx)...)
		}
	}
	entryFacts := len(vc.facts)
	fr.run(st)
	// postconditions
	rts, rnames := resultTypes(fn.Signature)
	for _, r := range fr.rets {
		if ct == nil {
			break
		}
		for i, cl := range ct.Ensures {
			if hasTag(cl.Tags, "assumed") {
				// an assumed postcondition of a function whose body is
				// otherwise verified: used by callers, not proved here
				vc.usedSpecs["contract:assumed postcondition of "+shortFn(fn)+": "+cl.Text] = true
				continue
			}
			if !e.tagActive(cl.Tags) {
				continue
			}
			ctx := fr.specCtx(r.st, fr.old, nil, nil, 0)
			ctx.retBlk, ctx.retIdx = r.blk, r.pos
			ctx.results = r.results
			ctx.rtypes = rts
			ctx.rnames = rnames
			if ctx.results == nil {
				ctx.results = []Term{}
			}
			g, err := ctx.goal(cl.Expr)
			fr.curBlock = nil
			if err != nil {
				vc.warn("%s: ensures %q: %v", shortFn(fn), cl.Text, err)
				fr.oblige("post", "", fmt.Sprintf("return%d#%d", r.idx, i), r.st, "false", "untranslatable: "+cl.Text, cl.Tags)
				continue
			}
			fr.oblige("post", "", fmt.Sprintf("return%d#%d", r.idx, i), r.st, g, cl.Text, cl.Tags)
		}
	}
	// net-effect frame of path-keyed ghost state (see frameGhostAt)
	for _, rc := range e.restoreChecks {
		var same []string
		for _, r := range fr.rets {
			same = append(same, implies(r.cond, eq(fmt.Sprintf("(select %s %s)", vc.cur(r.st, rc.key), rc.idx), fmt.Sprintf("(select %s %s)", vc.cur(fr.old, rc.key), rc.idx))))
		}
		goal := or(rc.listed, and(same...))
		vc.obls = append(vc.obls, &Obligation{Name: fmt.Sprintf("%s#frame@%s", shortFn(fn), rc.anchor), Kind: "frame", Guard: rc.reach, Goal: goal, NFacts: len(vc.facts), AssumeIdx: -1, Pos: rc.pos, Expect: "unsat", Func: shortFn(fn),
			Desc: "ghost state " + rc.key + " is modified at a key not listed in modifies and not restored before returning"})
	}
	// loop clauses must name a loop that exists
	if ct != nil {
		for n, cls := range ct.Loops {
			found := false
			for _, li := range fr.loops {
				if li.ordinal == n {
					found = true
				}
			}
			if !found && len(cls) > 0 {
				vc.obls = append(vc.obls, &Obligation{Name: fmt.Sprintf("%s#inv-init@no-such-loop%d", shortFn(fn), n), Kind: "inv-init", Guard: "true", Goal: "false", AssumeIdx: -1, Expect: "unsat", Func: shortFn(fn),
					Desc: fmt.Sprintf("the contract has clauses for loop %d, but the function has no such loop (the loop it guards is gone)", n)})
			}
		}
	}
	// every "at <anchor> assert" clause must have matched a program point
	if ct != nil {
		for i, cl := range ct.Asserts {
			if !e.assertHit[i] && e.tagActive(cl.Tags) {
				vc.obls = append(vc.obls, &Obligation{Name: fmt.Sprintf("%s#assert@unmatched-anchor#%d", shortFn(fn), i), Kind: "assert", Guard: "true", Goal: "false", NFacts: 0, AssumeIdx: -1, Expect: "unsat", Func: shortFn(fn),
					Desc: "no program point matches anchor \"" + cl.Anchor + "\" (the sink it guards is gone or renamed); anchors seen: " + strings.Join(uniq(e.anchorsSeen), " | "), Tags: cl.Tags})
			}
		}
	}
	// vacuity / cover queries
	res.Covers = append(res.Covers, &Obligation{Name: shortFn(fn) + "#vacuity@entry", Kind: "vacuity", Guard: "true", Goal: "false", NFacts: entryFacts, Expect: "sat", Func: shortFn(fn), Desc: "precondition satisfiable"})
	for _, r := range fr.rets {
		res.Covers = append(res.Covers, &Obligation{Name: fmt.Sprintf("%s#vacuity@return%d", shortFn(fn), r.idx), Kind: "vacuity", Guard: r.cond, Goal: "false", NFacts: len(vc.facts), Expect: "sat", Func: shortFn(fn), Desc: "return reachable under the assumptions"})
	}
	res.Covers = append(res.Covers, e.callCovers...)
	seenGuard := map[string]bool{}
	for _, ob := range vc.obls {
		if ob.Kind == "safe" || ob.Sub == "auto" || strings.Contains(ob.Name, "@inl:") {
			continue
		}
		// every obligation's program point must be reachable under the assumptions
		// made so far (otherwise it would be discharged vacuously)
		k := fmt.Sprintf("%s/%d", ob.Guard, ob.NFacts/40)
		if seenGuard[ob.Guard] || seenGuard[k] {
			continue
		}
		seenGuard[ob.Guard] = true
		res.Covers = append(res.Covers, &Obligation{Name: strings.Replace(ob.Name, "#"+ob.Kind+"@", "#vacuity@", 1), Kind: "vacuity", Guard: ob.Guard, Goal: "false", NFacts: ob.NFacts, Expect: "sat", Func: shortFn(fn), Desc: "program point of the obligation is reachable under the assumptions"})
	}
	return res
}

// checkAsserts evaluates "at <anchor> assert" clauses of the root contract.
func (fr *frame) checkAsserts(anchor string, st *State) {
	ct := fr.contract
	if ct == nil {
		return
	}
	fr.enc.anchorsSeen = append(fr.enc.anchorsSeen, anchor)
	nth := -1
	for i0, cl := range ct.Asserts {
		if anchorMatches(cl.Anchor, anchor) {
			nth++ // ordinal among the clauses of this anchor (stable when other anchors get clauses)
		}
		i := nth
		if !anchorMatches(cl.Anchor, anchor) || !fr.enc.tagActive(cl.Tags) {
			continue
		}
		fr.enc.assertHit[i0] = true
		ctx := fr.specCtx(st, fr.oldState(), nil, fr.curBlock, fr.curIdx)
		g, err := ctx.goal(cl.Expr)
		if err != nil {
			fr.vc().warn("%s: assert %q: %v", shortFn(fr.fn), cl.Text, err)
			g = "false"
		}
		fr.oblige("assert", "", fmt.Sprintf("%s#%d", strings.ReplaceAll(anchor, " ", "_"), i), st, g, cl.Text, cl.Tags)
	}
}

// declaredMods turns a modifies item of the root contract into the set of
// locations the body may write.
func (fr *frame) declaredMods(m ModSpec, ctx *specCtx) []declMod {
	vc := fr.vc()
	switch m.Kind {
	case "all":
		return []declMod{{key: "*"}}
	case "everything":
		// all, and every bookkeeping ghost: the function may run code that is
		// not known here (callbacks, goroutines) which may reach any contract
		ds := []declMod{{key: "*"}}
		for _, g := range fr.enc.db.Ghosts {
			if g.Book {
				ds = append(ds, declMod{key: vc.keyGhost(g)})
			}
		}
		return ds
	case "heap":
		return []declMod{{key: "*heap"}}
	case "ghost":
		if g := fr.enc.db.Ghosts[m.Name]; g != nil {
			return []declMod{{key: vc.keyGhost(g)}}
		}
	case "ghostwhere":
		if g := fr.enc.db.Ghosts[m.Name]; g != nil && g.Key != nil {
			if pred, err := ctx.regionPred(m, *g.Key); err == nil {
				return []declMod{{key: vc.keyGhost(g), pred: pred}}
			}
		}
	case "ghostat":
		if g := fr.enc.db.Ghosts[m.Name]; g != nil {
			if k, err := ctx.tr(m.Expr); err == nil {
				return []declMod{{key: vc.keyGhost(g), idx: k.S}}
			}
		}
	case "field":
		obj, err := ctx.tr(m.Expr)
		if err != nil || obj.ty == nil {
			break
		}
		t := deref(obj.ty)
		if su, ok := t.Underlying().(*types.Struct); ok {
			for i := 0; i < su.NumFields(); i++ {
				f := su.Field(i)
				if f.Name() != m.Fld {
					continue
				}
				if isStruct(f.Type()) {
					var out []declMod
					sub := Term{fmt.Sprintf("(%s %s)", fr.enc.faFun(t, f.Name()), obj.S), SInt}
					for _, c := range fr.cellsOf(sub, f.Type()) {
						out = append(out, declMod{key: c.key, idx: c.idx})
					}
					return out
				}
				return []declMod{{key: vc.keyField(t, f.Name(), sortOf(f.Type())), idx: obj.S}}
			}
		}
	case "fields", "cell":
		obj, err := ctx.tr(m.Expr)
		if err != nil || obj.ty == nil {
			break
		}
		var out []declMod
		for _, c := range fr.cellsOf(obj.Term, deref(obj.ty)) {
			out = append(out, declMod{key: c.key, idx: c.idx})
		}
		return out
	case "bytes":
		if obj, err := ctx.tr(m.Expr); err == nil {
			return []declMod{{key: vc.keyBM(), idx: fmt.Sprintf("(sl_base %s)", obj.S)}}
		}
	case "map":
		obj, err := ctx.tr(m.Expr)
		if err != nil || obj.ty == nil {
			break
		}
		if mt, ok := obj.ty.Underlying().(*types.Map); ok {
			d, v := vc.keyMap(mt)
			return []declMod{{key: d, idx: obj.S}, {key: v, idx: obj.S}}
		}
	case "key":
		return []declMod{{key: m.Name}}
	case "captured":
		for _, fv := range fr.fn.FreeVars {
			if fv.Name() == m.Name {
				var out []declMod
				for _, c := range fr.cellsOf(fr.val(fv), deref(fv.Type())) {
					out = append(out, declMod{key: c.key, idx: c.idx})
				}
				return out
			}
		}
	case "mapkey":
		obj, err := ctx.tr(m.Expr)
		if err != nil || obj.ty == nil {
			break
		}
		if mt, ok := obj.ty.Underlying().(*types.Map); ok {
			d, v := vc.keyMap(mt)
			return []declMod{{key: d, idx: obj.S}, {key: v, idx: obj.S}}
		}
	}
	return nil
}

func uniq(xs []string) []string {
	seen := map[string]bool{}
	var out []string
	for _, x := range xs {
		if !seen[x] {
			seen[x] = true
			out = append(out, x)
		}
	}
	return out
}

func hasTag(tags []string, t string) bool {
	for _, x := range tags {
		if x == t {
			return true
		}
	}
	return false
}

// anchorMatches: a clause anchored at "call f:*" applies to every call of f in
// the function (a call added later gets the obligation too).
func anchorMatches(pattern, anchor string) bool {
	if pattern == anchor {
		return true
	}
	if strings.HasSuffix(pattern, ":*") && strings.HasPrefix(anchor, pattern[:len(pattern)-1]) {
		rest := anchor[len(pattern)-1:]
		if rest == "" {
			return false
		}
		for _, c := range rest {
			if c < '0' || c > '9' {
				return false
			}
		}
		return true
	}
	return false
}

// comparesWithNil: the function tests this parameter against nil itself (a
// method written to be callable on a nil receiver); the usual assumption that
// a receiver is not nil is not made then.
func comparesWithNil(fn *ssa.Function, p *ssa.Parameter) bool {
	for _, ref := range *p.Referrers() {
		if b, ok := ref.(*ssa.BinOp); ok && (b.Op == token.EQL || b.Op == token.NEQ) {
			for _, o := range []ssa.Value{b.X, b.Y} {
				if c, ok := o.(*ssa.Const); ok && c.IsNil() {
					return true
				}
			}
		}
	}
	return false
}
