package main

import (
	"context"
	"encoding/json"
	"fmt"
	"os"
	"os/exec"
	"path/filepath"
	"regexp"
	"sort"
	"strings"
	"time"
)

// evalModel asks the solver for the values of terms in a model of the
// (failed) obligation.  The quantified axioms are dropped when the full query
// gave no definite answer (ob.Approx).
func (db *ContractDB) evalModel(vc *VC, ob *Obligation, terms []string) (map[string]string, error) {
	return db.evalModelX(vc, ob, terms, nil)
}

// evalModelX: extra are additional assertions (e.g. instances of axioms the
// ground query lacks) added before check-sat.
func (db *ContractDB) evalModelX(vc *VC, ob *Obligation, terms []string, extra []string) (map[string]string, error) {
	if len(terms) == 0 {
		return map[string]string{}, nil
	}
	ground := ob.Approx || ob.Status != "sat"
	q := db.queryTextG(vc, ob, true, ground)
	q = strings.Replace(q, "(get-model)\n", "", 1)
	if len(extra) > 0 {
		var eb strings.Builder
		for _, x := range extra {
			eb.WriteString("(assert " + x + ")\n")
		}
		q = strings.Replace(q, "(check-sat)\n", eb.String()+"(check-sat)\n", 1)
	}
	var b strings.Builder
	b.WriteString(q)
	b.WriteString("(get-value (")
	b.WriteString(strings.Join(terms, " "))
	b.WriteString("))\n")
	dir, err := os.MkdirTemp("", "govc-eval")
	if err != nil {
		return nil, err
	}
	defer os.RemoveAll(dir)
	f := filepath.Join(dir, "q.smt2")
	os.WriteFile(f, []byte(b.String()), 0o644)
	st, out, _ := runSolver(solvers[0], f, 20, 0)
	if st != "sat" {
		return nil, fmt.Errorf("no model (%s)", st)
	}
	rest := out[strings.Index(out, "\n")+1:]
	vals := parsePairs(rest)
	res := map[string]string{}
	for i, t := range terms {
		if i < len(vals) {
			res[t] = vals[i]
		}
	}
	return res, nil
}

// parsePairs parses "((t1 v1) (t2 v2) ...)" returning the values in order.
func parsePairs(s string) []string {
	s = strings.TrimSpace(s)
	var out []string
	// tokenise into top-level pairs
	depth := 0
	start := -1
	for i := 0; i < len(s); i++ {
		switch s[i] {
		case '|':
			j := strings.IndexByte(s[i+1:], '|')
			if j < 0 {
				return out
			}
			i += j + 1
		case '(':
			depth++
			if depth == 2 {
				start = i
			}
		case ')':
			if depth == 2 && start >= 0 {
				pair := s[start+1 : i]
				out = append(out, lastSexp(pair))
				start = -1
			}
			depth--
		}
	}
	return out
}

// lastSexp returns the last s-expression of "term value".
func lastSexp(s string) string {
	s = strings.TrimSpace(s)
	if strings.HasSuffix(s, ")") {
		d := 0
		for i := len(s) - 1; i >= 0; i-- {
			if s[i] == ')' {
				d++
			} else if s[i] == '(' {
				d--
				if d == 0 {
					return s[i:]
				}
			}
		}
	}
	if i := strings.LastIndexAny(s, " \t\n"); i >= 0 {
		return s[i+1:]
	}
	return s
}

var negRE = regexp.MustCompile(`^\(-\s*(\d+)\)$`)

func modelInt(s string) (int64, bool) {
	s = strings.TrimSpace(s)
	if m := negRE.FindStringSubmatch(s); m != nil {
		var n int64
		fmt.Sscanf(m[1], "%d", &n)
		return -n, true
	}
	var n int64
	if _, err := fmt.Sscanf(s, "%d", &n); err == nil {
		return n, true
	}
	return 0, false
}

// litValues evaluates every string literal constant, so model values of V
// sort can be mapped back to Go strings.
func (db *ContractDB) litValues(vc *VC, ob *Obligation) map[string]string {
	var terms []string
	var lits []string
	for _, l := range vc.strorder {
		terms = append(terms, vc.strlits[l])
		lits = append(lits, l)
	}
	terms = append(terms, "str_empty")
	lits = append(lits, "")
	vals, err := db.evalModel(vc, ob, terms)
	out := map[string]string{}
	if err != nil {
		return out
	}
	for i, t := range terms {
		out[vals[t]] = lits[i]
	}
	return out
}

// runOverlayTest compiles and runs an in-package Go test injected through
// -overlay (nothing is written into the repository).
func runOverlayTest(repo, pkgRel, fileName, content, runName string) (string, bool, error) {
	dir, err := os.MkdirTemp("", "govc-replay")
	if err != nil {
		return "", false, err
	}
	defer os.RemoveAll(dir)
	src := filepath.Join(dir, fileName)
	if err := os.WriteFile(src, []byte(content), 0o644); err != nil {
		return "", false, err
	}
	ov := map[string]map[string]string{"Replace": {filepath.Join(repo, pkgRel, fileName): src}}
	ovb, _ := json.Marshal(ov)
	ovf := filepath.Join(dir, "ov.json")
	os.WriteFile(ovf, ovb, 0o644)
	ctx, cancel := context.WithTimeout(context.Background(), 240*time.Second)
	defer cancel()
	cmd := exec.CommandContext(ctx, "go", "test", "-overlay", ovf, "-vet=off", "-count=1", "-timeout", "60s", "-run", runName, "-v", "./"+pkgRel)
	cmd.Dir = repo
	cmd.Env = append(os.Environ(), "GOFLAGS=-mod=mod", "GOPROXY=off", "GOSUMDB=off", "GOTOOLCHAIN=local")
	out, err := cmd.CombinedOutput()
	passed := err == nil
	return string(out), passed, nil
}

func sortedStrs(m map[string]string) []string {
	var ks []string
	for k := range m {
		ks = append(ks, k)
	}
	sort.Strings(ks)
	return ks
}

// witnessText prints the model values of the names a goal mentions.
func (db *ContractDB) witnessText(vc *VC, ob *Obligation) string {
	if len(ob.Witness) == 0 {
		return ""
	}
	var names, terms []string
	for _, n := range sortedStrs(ob.Witness) {
		names = append(names, n)
		terms = append(terms, ob.Witness[n])
	}
	vals, err := db.evalModel(vc, ob, terms)
	if err != nil {
		return "model values: unavailable (" + err.Error() + ")\n"
	}
	lits := db.litValues(vc, ob)
	var b strings.Builder
	b.WriteString("model values of the names in the goal:\n")
	for i, n := range names {
		v := vals[terms[i]]
		if l, ok := lits[v]; ok {
			v = fmt.Sprintf("%q", l)
		}
		fmt.Fprintf(&b, "  %s = %s\n", n, v)
	}
	return b.String()
}
