package main

import (
	"fmt"
	"strings"
)

func init() {
	replayers["C11"] = replayC11
	constReplayers["C11"] = replayC11Regex
	replayers["C17"] = replayC17
	replayers["C10"] = replayC10
	replayers["C20"] = replayC20
	replayers["C08"] = replayClean
	replayers["C06"] = replayC06
	replayers["C16"] = replayC16
	replayers["C01"] = replayClean
	replayers["C15"] = replayC15
}

// ---------------------------------------------------------------------------
// C11: build a concrete key from the model (number of dot-separated parts,
// which parts equal which literals) and feed it to the real readGitConfig
// from a source restricted to safe keys.

func replayC11(w *World, ob *Obligation, vc *VC) (bool, string) {
	if !strings.HasPrefix(ob.Func, "config.readGitConfig") {
		return false, "no replay template for this function\n"
	}
	keyT, ok := ob.Witness["key"]
	if !ok {
		return false, "goal does not mention key\n"
	}
	parts := fmt.Sprintf("(str_split %s lit_dot)", keyT)
	n := fmt.Sprintf("(sl_len %s)", parts)
	extra := []string{fmt.Sprintf("(and (>= %s 1) (<= %s 5))", n, n)}
	vals, err := w.db.evalModelX(vc, ob, []string{n}, extra)
	var keys []string
	var b strings.Builder
	if err == nil {
		cnt, _ := modelInt(vals[n])
		var terms []string
		for i := int64(0); i < cnt; i++ {
			terms = append(terms, fmt.Sprintf("(at_V %s %d)", parts, i))
		}
		terms = append(terms, keyT)
		pv, err2 := w.db.evalModelX(vc, ob, terms, append(extra, fmt.Sprintf("(= %s %d)", n, cnt)))
		lits := w.db.litValues(vc, ob)
		if err2 == nil {
			if l, ok := lits[pv[keyT]]; ok && l != "" {
				keys = append(keys, l)
			} else {
				var ps []string
				for i := int64(0); i < cnt; i++ {
					v := pv[terms[i]]
					if l, ok := lits[v]; ok && l != "" && !strings.Contains(l, ".") {
						ps = append(ps, l)
					} else {
						ps = append(ps, fmt.Sprintf("x%d", i))
					}
				}
				keys = append(keys, strings.Join(ps, "."))
			}
			fmt.Fprintf(&b, "key built from the model: %q (%d parts)\n", keys[0], cnt)
		}
	}
	if len(keys) == 0 {
		return false, "could not derive a key from the model\n"
	}
	test := `package config

import (
	"strings"
	"testing"

	"github.com/git-lfs/git-lfs/v3/git"
)

func verifDocSafe(key string) bool {
	switch key {
	case "lfs.allowincompletepush", "lfs.fetchexclude", "lfs.fetchinclude", "lfs.gitprotocol",
		"lfs.locksverify", "lfs.pushurl", "lfs.skipdownloaderrors", "lfs.url":
		return true
	}
	p := strings.Split(key, ".")
	if len(p) >= 3 && p[0] == "lfs" && p[len(p)-1] == "access" {
		return true
	}
	if len(p) >= 3 && p[0] == "remote" && p[len(p)-1] == "lfsurl" {
		return true
	}
	return false
}

func TestVerifReplayC11(t *testing.T) {
	for _, key := range []string{` + quoteList(keys) + `} {
		// the key alone, and after lines that are legitimately allowed (history-dependence)
		for _, before := range [][]string{nil, {"lfs.https://h/.access=basic"}, {"remote.r.lfsurl=https://h/"}, {"lfs.url=https://h/"}} {
			src := &git.ConfigurationSource{Lines: append(append([]string{}, before...), key+"=7"), OnlySafeKeys: true}
			gf, exts, _ := readGitConfig(src)
			_, took := gf.Get(key)
			for _, e := range exts {
				if e.Clean != "" || e.Smudge != "" || e.Priority != 0 {
					took = true
				}
			}
			if took && !verifDocSafe(key) {
				t.Errorf("REPRODUCED: key %q from a .lfsconfig-restricted source (after lines %q) took effect but is not on the documented allow-list", key, before)
			}
		}
	}
}
`
	out, passed, err := runOverlayTest(w.repoDir, "config", "zz_verif_replay_test.go", test, "TestVerifReplayC11")
	if err != nil {
		return false, b.String() + "replay could not run: " + err.Error() + "\n"
	}
	b.WriteString(trimOut(out))
	return !passed && strings.Contains(out, "REPRODUCED"), b.String()
}

func quoteList(xs []string) string {
	var q []string
	for _, x := range xs {
		q = append(q, fmt.Sprintf("%q", x))
	}
	return strings.Join(q, ", ")
}

func trimOut(s string) string {
	if len(s) > 6000 {
		return s[:6000] + "\n...(truncated)\n"
	}
	return s
}

// ---------------------------------------------------------------------------
// C17: the model says which of LF / CR / NUL the offending item contains and
// whether protection is on; build such a value and call the real buffer().

func replayC17(w *World, ob *Obligation, vc *VC) (bool, string) {
	if strings.Contains(ob.Func, "GetCredentialHelper") {
		return replayC17Shared(w)
	}
	if !strings.Contains(ob.Func, "buffer") {
		return false, "no replay template for this function\n"
	}
	item, ok := ob.Witness["item"]
	var hasLF, hasCR, hasNUL, protect = "false", "false", "false", "true"
	var b strings.Builder
	if ok {
		terms := []string{
			fmt.Sprintf("(str_contains %s %s)", item, vc.strLit("\n").S),
			fmt.Sprintf("(str_contains %s %s)", item, vc.strLit("\r").S),
			fmt.Sprintf("(str_contains %s %s)", item, vc.strLit("\x00").S),
		}
		if p, ok := ob.Witness["protectProtocol"]; ok {
			terms = append(terms, p)
		}
		vals, err := w.db.evalModel(vc, ob, terms)
		if err == nil {
			hasLF, hasCR, hasNUL = vals[terms[0]], vals[terms[1]], vals[terms[2]]
			if len(terms) > 3 {
				protect = vals[terms[3]]
			}
		}
	}
	fmt.Fprintf(&b, "model: item contains LF=%s CR=%s NUL=%s, protectProtocol=%s\n", hasLF, hasCR, hasNUL, protect)
	// candidate values: the model's class first, then the neighbouring classes
	mk := func(lf, cr, nul string) string {
		v := "a"
		if cr == "true" {
			v += "\r"
		}
		if lf == "true" {
			v += "\nhost=evil.example"
		}
		if nul == "true" {
			v += "\x00b"
		}
		return v
	}
	cands := []string{mk(hasLF, hasCR, hasNUL), mk("true", "true", "false"), mk("false", "false", "true"), mk("true", "false", "false"), mk("false", "true", "false")}
	test := `package creds

import (
	"bytes"
	"strings"
	"testing"
)

func TestVerifReplayC17(t *testing.T) {
	for _, protect := range []bool{` + protect + `, true, false} {
		for _, v := range []string{` + quoteList(cands) + `} {
			c := Creds{"host": []string{v}}
			buf, err := c.buffer(protect)
			bad := strings.ContainsAny(v, "\n\x00") || (protect && strings.Contains(v, "\r"))
			if bad && err == nil {
				t.Errorf("REPRODUCED: value %q (protect=%v) was not refused", v, protect)
				continue
			}
			if err != nil {
				if !bad {
					t.Errorf("REPRODUCED: harmless value %q refused", v)
				}
				continue
			}
			want := "capability[]=authtype\ncapability[]=state\nhost=" + v + "\n"
			if !bytes.Equal(buf.Bytes(), []byte(want)) {
				t.Errorf("REPRODUCED: helper input is %q, want %q", buf.String(), want)
			}
		}
	}
}
`
	out, passed, err := runOverlayTest(w.repoDir, "creds", "zz_verif_replay_test.go", test, "TestVerifReplayC17")
	if err != nil {
		return false, b.String() + "replay could not run: " + err.Error() + "\n"
	}
	b.WriteString(trimOut(out))
	return !passed && strings.Contains(out, "REPRODUCED"), b.String()
}

// ---------------------------------------------------------------------------
// C10: hop limit (decreases obligations) and Authorization placement
// (newRequestForRetry postconditions).  The replay drives the real client
// against an httptest server.

func replayC10(w *World, ob *Obligation, vc *VC) (bool, string) {
	var b strings.Builder
	switch {
	case ob.Kind == "decreases":
		pkg, test := "lfshttp", `package lfshttp

import (
	"net/http"
	"net/http/httptest"
	"sync/atomic"
	"testing"
)

func TestVerifReplayC10(t *testing.T) {
	var hits int32
	var srv *httptest.Server
	srv = httptest.NewServer(http.HandlerFunc(func(w http.ResponseWriter, r *http.Request) {
		if atomic.AddInt32(&hits, 1) > 40 {
			w.WriteHeader(200)
			return
		}
		w.Header().Set("Location", srv.URL+"/again")
		w.WriteHeader(307)
	}))
	defer srv.Close()
	c, err := NewClient(nil)
	if err != nil {
		t.Fatal(err)
	}
	req, _ := http.NewRequest("GET", srv.URL+"/start", nil)
	_, err = c.Do(req)
	n := atomic.LoadInt32(&hits)
	t.Logf("requests made: %d, err=%v", n, err)
	if n > 4 {
		t.Errorf("REPRODUCED: a redirect loop was followed for %d requests; the chain is not cut off after a small fixed number of hops", n)
	}
}
`
		if strings.Contains(ob.Func, "lfsapi") {
			pkg = "lfsapi"
			test = `package lfsapi

import (
	"net/http"
	"net/http/httptest"
	"sync/atomic"
	"testing"

	"github.com/git-lfs/git-lfs/v3/creds"
	"github.com/git-lfs/git-lfs/v3/lfshttp"
)

func TestVerifReplayC10(t *testing.T) {
	var hits int32
	var srv *httptest.Server
	srv = httptest.NewServer(http.HandlerFunc(func(w http.ResponseWriter, r *http.Request) {
		if atomic.AddInt32(&hits, 1) > 40 {
			w.WriteHeader(200)
			return
		}
		w.Header().Set("Location", srv.URL+"/again")
		w.WriteHeader(307)
	}))
	defer srv.Close()
	c, err := NewClient(lfshttp.NewContext(nil, nil, map[string]string{"lfs.url": srv.URL}))
	if err != nil {
		t.Fatal(err)
	}
	req, _ := http.NewRequest("GET", srv.URL+"/start", nil)
	_, err = c.DoWithAuth("", creds.NewAccess(creds.NoneAccess, srv.URL), req)
	n := atomic.LoadInt32(&hits)
	t.Logf("requests made: %d, err=%v", n, err)
	if n > 4 {
		t.Errorf("REPRODUCED: a redirect loop was followed for %d requests; the chain is not cut off after a small fixed number of hops", n)
	}
}
`
		}
		out, passed, err := runOverlayTest(w.repoDir, pkg, "zz_verif_replay_test.go", test, "TestVerifReplayC10")
		if err != nil {
			return false, "replay could not run: " + err.Error() + "\n"
		}
		b.WriteString(trimOut(out))
		return !passed && strings.Contains(out, "REPRODUCED"), b.String()
	case strings.Contains(ob.Func, "newRequestForRetry") || strings.Contains(ob.Func, "DoWithRedirect"):
		test := `package lfshttp

import (
	"net/http"
	"testing"
)

func TestVerifReplayC10(t *testing.T) {
	type tc struct{ from, to string }
	cases := []tc{
		{"https://h.example/a", "https://other.example/a"},
		{"https://h.example/a", "https://h.example:80/a"},
		{"https://h.example/a", "https://h.example:8443/a"},
		{"https://h.example:443/a", "https://h.example/a"},
		{"http://h.example/a", "http://h.example:443/a"},
		{"https://h.example/a", "http://h.example/a"},
		{"https://h.example/a", "https://H.example/a"},
		{"https://h.example/a", "https://h.example/b"},
	}
	for _, c := range cases {
		req, _ := http.NewRequest("GET", c.from, nil)
		req.Header.Set("Authorization", "Basic c2VjcmV0")
		nr, err := newRequestForRetry(req, c.to)
		if err != nil {
			continue
		}
		if req.URL.Scheme == "https" && nr.URL.Scheme == "http" {
			t.Errorf("REPRODUCED: https request redirected to plain http: %s -> %s", c.from, c.to)
		}
		if nr.Header.Get("Authorization") != "" && nr.URL.Host != req.URL.Host {
			t.Errorf("REPRODUCED: Authorization obtained for %s was placed on a request to %s", req.URL.Host, nr.URL.Host)
		}
	}
}
`
		out, passed, err := runOverlayTest(w.repoDir, "lfshttp", "zz_verif_replay_test.go", test, "TestVerifReplayC10")
		if err != nil {
			return false, "replay could not run: " + err.Error() + "\n"
		}
		b.WriteString(trimOut(out))
		return !passed && strings.Contains(out, "REPRODUCED"), b.String()
	}
	return false, "no replay template for this obligation\n"
}

// ---------------------------------------------------------------------------
// C20: hook files.  The failing obligations relate what matchesCurrent /
// Upgrade / Uninstall conclude to the WHOLE content of the hook file.  The
// replay builds hook files of the classes the model distinguishes (length
// below / above the read window, generated prefix, user text after it) and
// runs the real Install/Upgrade/Uninstall on them.

func replayC20(w *World, ob *Obligation, vc *VC) (bool, string) {
	if !strings.Contains(ob.Func, "Hook") {
		return false, "no replay template for this function\n"
	}
	test := `package lfs

import (
	"os"
	"path/filepath"
	"strings"
	"testing"

	"github.com/git-lfs/git-lfs/v3/config"
)

func TestVerifReplayC20(t *testing.T) {
	cfg := config.NewFrom(config.Values{})
	for _, hk := range LoadHooks("", cfg) {
		gen := append([]string{hk.Contents}, hk.upgradeables...)
		for gi, g := range gen {
			for _, pad := range []int{0, 10, 700, 1024, 2000} {
				for _, user := range []string{"", "rsync -a . backup:/srv/repo # my own hook line"} {
					dir := t.TempDir()
					h := NewStandardHook(hk.Type, dir, nil, cfg)
					h.upgradeables = hk.upgradeables
					content := g + "\n" + strings.Repeat("\n", pad) + user + "\n"
					path := filepath.Join(dir, hk.Type)
					if err := os.WriteFile(path, []byte(content), 0755); err != nil {
						t.Fatal(err)
					}
					generated := user == ""
					for _, op := range []string{"upgrade", "install", "uninstall"} {
						os.WriteFile(path, []byte(content), 0755)
						switch op {
						case "upgrade":
							h.Upgrade()
						case "install":
							h.Install(false)
						case "uninstall":
							h.Uninstall()
						}
						after, err := os.ReadFile(path)
						changed := err != nil || string(after) != content
						if changed && !generated {
							t.Errorf("REPRODUCED: %s destroyed a %s hook that git-lfs did not generate (template %d, %d padding lines, %d bytes -> %d bytes, gone=%v)", op, hk.Type, gi, pad, len(content), len(after), err != nil)
						}
					}
				}
			}
		}
	}
}
`
	out, passed, err := runOverlayTest(w.repoDir, "lfs", "zz_verif_replay_test.go", test, "TestVerifReplayC20")
	if err != nil {
		return false, "replay could not run: " + err.Error() + "\n"
	}
	if len(out) > 3000 {
		out = out[:3000] + "\n...(truncated)\n"
	}
	return !passed && strings.Contains(out, "REPRODUCED"), out
}

// ---------------------------------------------------------------------------
// C01 / C08 (clean side): the obligations quantify over the content S, its
// chunking by Read, and the size reported for the path.  The replay runs the
// real copyToTemp on the input classes the model distinguishes (pointer /
// look-alike / content; below / at / above 1024 bytes; one chunk / small
// chunks / pointer-sized first chunk; file size smaller / equal / larger).

func replayClean(w *World, ob *Obligation, vc *VC) (bool, string) {
	if strings.Contains(ob.Func, "processFiles") {
		return replayMergeDriver(w)
	}
	if !(strings.Contains(ob.Func, "copyToTemp") || strings.Contains(ob.Func, "DecodeFrom")) {
		return false, "no replay template for this function\n"
	}
	test := `package lfs

import (
	"bytes"
	"crypto/sha256"
	"encoding/hex"
	"io"
	"os"
	"strings"
	"testing"

	"github.com/git-lfs/git-lfs/v3/config"
	"github.com/git-lfs/git-lfs/v3/errors"
)

type verifChunkReader struct {
	data   []byte
	chunks []int
	i      int
}

func (r *verifChunkReader) Read(p []byte) (int, error) {
	if len(r.data) == 0 {
		return 0, io.EOF
	}
	n := len(p)
	if r.i < len(r.chunks) && r.chunks[r.i] < n {
		n = r.chunks[r.i]
	}
	r.i++
	if n > len(r.data) {
		n = len(r.data)
	}
	copy(p, r.data[:n])
	r.data = r.data[n:]
	return n, nil
}

func TestVerifReplayClean(t *testing.T) {
	dir := t.TempDir()
	cfg := config.NewIn(dir, dir)
	f := NewGitFilter(cfg)
	ptr := "version https://git-lfs.github.com/spec/v1\noid sha256:4d7a214614ab2935c943f9e0ff69d22eadbb8f32b1258daaa5e2ca24d17e2393\nsize 12345\n"
	inputs := map[string]string{
		"pointer":               ptr,
		"pointer+tail<1024":     ptr + "and then some more data that is not part of any pointer\n",
		"pointer+padding>=1024": ptr + strings.Repeat(" ", 1024) + "real content after the padding\n",
		"content 4800 bytes":    strings.Repeat("0123456789abcdef", 300),
		"content 1024 bytes":    strings.Repeat("x", 1024),
		"short content":         "hello world\n",
	}
	chunkings := map[string][]int{"one chunk": nil, "1-byte chunks": {1, 1, 1, 1, 1, 1, 1, 1, 1, 1, 1, 1, 1, 1, 1, 1, 1, 1, 1, 1}, "pointer-sized first chunk": {len(ptr)}, "half pointer first": {len(ptr) / 2}}
	for iname, in := range inputs {
		for cname, ch := range chunkings {
			for _, fileSize := range []int64{-1, 100, int64(len(in)), 1 << 20} {
				rd := &verifChunkReader{data: []byte(in), chunks: ch}
				oid, size, tmp, err := f.copyToTemp(rd, fileSize, nil)
				isPtr := false
				if len(in) < 1024 {
					_, derr := DecodePointer(strings.NewReader(in))
					isPtr = derr == nil
				}
				if errors.IsCleanPointerError(err) {
					by, _ := errors.GetContext(err, "bytes").([]byte)
					if !isPtr {
						t.Errorf("REPRODUCED: %s / %s / fileSize=%d: content that is not a pointer (%d bytes) was treated as a pointer", iname, cname, fileSize, len(in))
					} else if !bytes.Equal(by, []byte(in)) {
						t.Errorf("REPRODUCED: %s / %s / fileSize=%d: pointer written back as %d bytes instead of %d", iname, cname, fileSize, len(by), len(in))
					}
					continue
				}
				if err != nil {
					t.Errorf("unexpected error: %v", err)
					continue
				}
				if isPtr {
					t.Errorf("REPRODUCED: %s / %s / fileSize=%d: a well-formed pointer was stored as an object (pointer to a pointer)", iname, cname, fileSize)
				}
				stored, _ := os.ReadFile(tmp.Name())
				os.Remove(tmp.Name())
				sum := sha256.Sum256([]byte(in))
				if !bytes.Equal(stored, []byte(in)) || oid != hex.EncodeToString(sum[:]) || size != int64(len(in)) {
					t.Errorf("REPRODUCED: %s / %s / fileSize=%d: stored %d of %d bytes; oid/size name %s/%d", iname, cname, fileSize, len(stored), len(in), oid[:8], size)
				}
			}
		}
	}
}
`
	out, passed, err := runOverlayTest(w.repoDir, "lfs", "zz_verif_replay_test.go", test, "TestVerifReplayClean")
	if err != nil {
		return false, "replay could not run: " + err.Error() + "\n"
	}
	if len(out) > 4000 {
		out = out[:4000] + "\n...(truncated)\n"
	}
	return !passed && strings.Contains(out, "REPRODUCED"), out
}

// ---------------------------------------------------------------------------
// C06: the batch response is server-controlled.  The failed obligation says
// the response must account for every object of the batch; the replay drives
// the real queue against a server whose response omits the requested object.

func replayC06(w *World, ob *Obligation, vc *VC) (bool, string) {
	if strings.Contains(ob.Name, "handleTransferResult#post") {
		return replayC06Unreported(w)
	}
	if strings.Contains(ob.Name, "tqClient).Batch#") {
		return replayC06NullObject(w, ob)
	}
	if !strings.Contains(ob.Name, "enqueueAndCollectRetriesFor#assert@loop_4_entry") {
		return false, "no replay template for this obligation\n"
	}
	test := `package tq

import (
	"net/http"
	"net/http/httptest"
	"testing"
	"time"

	"github.com/git-lfs/git-lfs/v3/lfsapi"
	"github.com/git-lfs/git-lfs/v3/lfshttp"
)

func TestVerifReplayC06(t *testing.T) {
	srv := httptest.NewServer(http.HandlerFunc(func(w http.ResponseWriter, r *http.Request) {
		w.Header().Set("Content-Type", "application/vnd.git-lfs+json")
		w.Write([]byte(` + "`" + `{"transfer":"basic","objects":[]}` + "`" + `))
	}))
	defer srv.Close()
	cli, err := lfsapi.NewClient(lfshttp.NewContext(nil, nil, map[string]string{"lfs.url": srv.URL, "lfs.transfer.maxretries": "1"}))
	if err != nil {
		t.Fatal(err)
	}
	m := NewManifest(nil, cli, "download", "origin")
	q := NewTransferQueue(Download, m, "origin")
	q.Add("a.bin", t.TempDir()+"/a.bin", "4d7a214614ab2935c943f9e0ff69d22eadbb8f32b1258daaa5e2ca24d17e2393", 12, false, nil)
	done := make(chan struct{})
	go func() { q.Wait(); close(done) }()
	select {
	case <-done:
		t.Logf("Wait returned; errors: %v", q.Errors())
		if len(q.Errors()) == 0 {
			t.Errorf("REPRODUCED: the object was neither transferred nor covered by a reported error")
		}
	case <-time.After(5 * time.Second):
		t.Errorf("REPRODUCED: batch response omitted the requested object; Wait() had not returned after 5s and no error was reported")
	}
}
`
	out, passed, err := runOverlayTest(w.repoDir, "tq", "zz_verif_replay_test.go", test, "TestVerifReplayC06")
	if err != nil {
		return false, "replay could not run: " + err.Error() + "\n"
	}
	return !passed && strings.Contains(out, "REPRODUCED"), trimOut(out)
}

// ---------------------------------------------------------------------------
// C16: lock checks on push (prepareUpload) and the --id unlock guard.

func replayC16(w *World, ob *Obligation, vc *VC) (bool, string) {
	switch {
	case strings.Contains(ob.Func, "prepareUpload"):
		test := `package commands

import (
	"testing"

	"github.com/git-lfs/git-lfs/v3/lfs"
)

func TestVerifReplayC16(t *testing.T) {
	oid := "4d7a214614ab2935c943f9e0ff69d22eadbb8f32b1258daaa5e2ca24d17e2393"
	mk := func(name string, size int64) *lfs.WrappedPointer {
		return &lfs.WrappedPointer{Name: name, Pointer: &lfs.Pointer{Oid: oid, Size: size}}
	}
	cases := map[string][]*lfs.WrappedPointer{
		"foreign-locked path whose content duplicates an earlier path": {mk("free.bin", 12), mk("locked-by-them.bin", 12)},
		"foreign-locked empty file":                                     {mk("locked-by-them.bin", 0)},
		"foreign-locked path, plain":                                    {mk("locked-by-them.bin", 12)},
	}
	for name, ptrs := range cases {
		lv := &lockVerifier{verifyState: verifyStateEnabled, verifiedRefs: map[string]bool{}, ourLocks: map[string]*refLock{},
			theirLocks: map[string]*refLock{"locked-by-them.bin": {path: "locked-by-them.bin"}}}
		c := &uploadContext{lockVerifier: lv, meter: nil, uploadedOids: nil}
		c.uploadedOids = newStringSetForReplay()
		c.prepareUpload(ptrs...)
		if !lv.HasUnownedLocks() {
			t.Errorf("REPRODUCED: %s: the push would not be rejected (no foreign lock recorded)", name)
		}
	}
}
`
		test = strings.Replace(test, "newStringSetForReplay()", "tools.NewStringSet()", 1)
		test = strings.Replace(test, `"github.com/git-lfs/git-lfs/v3/lfs"`, `"github.com/git-lfs/git-lfs/v3/lfs"`+"\n\t"+`"github.com/git-lfs/git-lfs/v3/tools"`, 1)
		out, passed, err := runOverlayTest(w.repoDir, "commands", "zz_verif_replay_test.go", test, "TestVerifReplayC16")
		if err != nil {
			return false, "replay could not run: " + err.Error() + "\n"
		}
		return !passed && strings.Contains(out, "REPRODUCED"), trimOut(out)
	case strings.Contains(ob.Func, "SearchLocksVerifiable"):
		test := `package locking

import (
	"encoding/json"
	"net/http"
	"net/http/httptest"
	"testing"

	"github.com/git-lfs/git-lfs/v3/config"
	"github.com/git-lfs/git-lfs/v3/git"
	"github.com/git-lfs/git-lfs/v3/lfsapi"
	"github.com/git-lfs/git-lfs/v3/lfshttp"
)

func TestVerifReplayC16(t *testing.T) {
	srv := httptest.NewServer(http.HandlerFunc(func(w http.ResponseWriter, r *http.Request) {
		w.Header().Set("Content-Type", "application/json")
		json.NewEncoder(w).Encode(lockVerifiableList{
			Theirs: []Lock{{Id: "99", Path: "art/locked-by-alice.psd", Owner: &User{Name: "Alice"}}},
			Ours:   []Lock{{Id: "101", Path: "art/mine.psd", Owner: &User{Name: "Fred"}}},
		})
	}))
	defer srv.Close()
	lfsclient, err := lfsapi.NewClient(lfshttp.NewContext(nil, nil, map[string]string{"lfs.url": srv.URL + "/api", "user.name": "Fred", "user.email": "fred@bloggs.com"}))
	if err != nil {
		t.Fatal(err)
	}
	client, err := NewClient("", lfsclient, config.New())
	if err != nil {
		t.Fatal(err)
	}
	if err := client.SetupFileCache(t.TempDir()); err != nil {
		t.Fatal(err)
	}
	client.RemoteRef = &git.Ref{Name: "refs/heads/master"}
	if _, _, err := client.SearchLocksVerifiable(0, false); err != nil {
		t.Fatal(err)
	}
	if !client.IsFileLockedByCurrentCommitter("art/mine.psd") {
		t.Errorf("own lock not cached")
	}
	if client.IsFileLockedByCurrentCommitter("art/locked-by-alice.psd") {
		t.Errorf("REPRODUCED: after a lock verification, a file locked by Alice is reported as locked by the current committer (it will be made writable)")
	}
}
`
		out, passed, err := runOverlayTest(w.repoDir, "locking", "zz_verif_replay_test.go", test, "TestVerifReplayC16")
		if err != nil {
			return false, "replay could not run: " + err.Error() + "\n"
		}
		return !passed && strings.Contains(out, "REPRODUCED"), trimOut(out)
	}
	return false, "no replay template for this obligation (the --id guard needs a Git work tree and a lock server)\n"
}

// C11, regexp of configureCustomAdapters: the solver's string (a key on which
// the code's pattern and "exactly lfs.customtransfer.<name>.path" disagree) is
// put into a Git environment, together with the key shape a .lfsconfig can
// really set, and the real manifest is asked which transfer agents it knows.
func replayC11Regex(w *World, ob *Obligation) (bool, string) {
	if !strings.Contains(ob.Name, "configureCustomAdapters") {
		return false, "no replay template for this constant\n"
	}
	var cands []string
	if i := strings.Index(ob.Model, "String"); i >= 0 {
		rest := ob.Model[i:]
		if j := strings.Index(rest, "\""); j >= 0 {
			rest = rest[j+1:]
			if k := strings.Index(rest, "\")"); k >= 0 {
				cands = append(cands, smtUnescape(rest[:k]))
			}
		}
	}
	cands = append(cands, "lfs.https://example.com/lfs.customtransfer.evil.path.access")
	test := `package tq

import (
	"regexp"
	"testing"

	"github.com/git-lfs/git-lfs/v3/config"
	"github.com/git-lfs/git-lfs/v3/lfsapi"
)

func TestVerifReplayC11Regex(t *testing.T) {
	exact := regexp.MustCompile("\\Alfs\\.customtransfer\\.[^.]+\\.path\\z")
	for _, key := range []string{` + quoteList(cands) + `} {
		cfg := config.NewFrom(config.Values{Git: map[string][]string{key: []string{"/tmp/verif-replay-agent"}}})
		c, err := lfsapi.NewClient(cfg)
		if err != nil {
			t.Fatal(err)
		}
		m := NewManifest(cfg.Filesystem(), c, "download", "origin")
		custom := 0
		for _, n := range m.GetAdapterNames(Download) {
			if a, ok := m.NewDownloadAdapter(n).(*customAdapter); ok && a.path == "/tmp/verif-replay-agent" {
				custom++
			}
		}
		if (custom > 0) != exact.MatchString(key) {
			t.Errorf("REPRODUCED: configuration key %q registers %d custom transfer agent(s); exact key: %v", key, custom, exact.MatchString(key))
		}
	}
}
`
	out, passed, err := runOverlayTest(w.repoDir, "tq", "zz_verif_replay_test.go", test, "TestVerifReplayC11Regex")
	if err != nil {
		return false, "replay could not run: " + err.Error() + "\n"
	}
	return !passed && strings.Contains(out, "REPRODUCED"), trimOut(out)
}

// smtUnescape decodes the \u{..} escapes and doubled quotes of an SMT-LIB string literal.
func smtUnescape(s string) string {
	var b strings.Builder
	for i := 0; i < len(s); i++ {
		if strings.HasPrefix(s[i:], "\\u{") {
			if j := strings.IndexByte(s[i:], '}'); j > 0 {
				var r rune
				fmt.Sscanf(s[i+3:i+j], "%x", &r)
				b.WriteRune(r)
				i += j
				continue
			}
		}
		if s[i] == '"' && i+1 < len(s) && s[i+1] == '"' {
			i++
		}
		b.WriteByte(s[i])
	}
	return b.String()
}

// ---------------------------------------------------------------------------
// C15, the retry settings of a manifest (newConcreteManifest postconditions):
// the value the model gives lfs.transfer.maxretrydelay / maxretries is put
// into a real Git environment and the real manifest is asked what it uses.

func replayC15(w *World, ob *Obligation, vc *VC) (bool, string) {
	if strings.Contains(ob.Name, ").makeRequest#assert@call_") {
		return replayC15AuthLoop(w, strings.Contains(ob.Name, "basicUploadAdapter"))
	}
	if strings.Contains(ob.Name, "retryCounter).ReadyTime#") {
		return replayC15ReadyTime(w)
	}
	if !strings.Contains(ob.Name, "newConcreteManifest#post") {
		return false, "no replay template for this obligation\n"
	}
	// the model's configured values, when the solver gave one
	param := ""
	for _, d := range vc.decls {
		if strings.HasPrefix(d, "(declare-const p.apiClient!") {
			param = strings.Fields(d)[1]
		}
	}
	cand := map[string][]int64{"lfs.transfer.maxretrydelay": nil, "lfs.transfer.maxretries": nil}
	var note strings.Builder
	if param != "" {
		for key, def := range map[string]string{"lfs.transfer.maxretrydelay": "(- 1)", "lfs.transfer.maxretries": "0"} {
			lit, ok := vc.strlits[key]
			if !ok {
				continue
			}
			t := fmt.Sprintf("(env_int (client_gitenv %s) %s %s)", param, lit, def)
			if vals, err := w.db.evalModel(vc, ob, []string{t}); err == nil {
				if n, ok := modelInt(vals[t]); ok && n > -1000000 && n < 1000000 {
					cand[key] = append(cand[key], n)
					fmt.Fprintf(&note, "model: %s = %d\n", key, n)
				}
			}
		}
	}
	if len(cand["lfs.transfer.maxretrydelay"])+len(cand["lfs.transfer.maxretries"]) == 0 {
		// no model: the boundary values of the documented ranges
		cand["lfs.transfer.maxretrydelay"] = []int64{0, 1, 2}
		cand["lfs.transfer.maxretries"] = []int64{1, 2}
		note.WriteString("no model value available: trying the boundary values of the documented ranges\n")
	}
	var cases strings.Builder
	for _, key := range []string{"lfs.transfer.maxretrydelay", "lfs.transfer.maxretries"} {
		for _, n := range cand[key] {
			fmt.Fprintf(&cases, "\t\t{%q, %d},\n", key, n)
		}
	}
	test := `package tq

import (
	"strconv"
	"testing"

	"github.com/git-lfs/git-lfs/v3/lfsapi"
	"github.com/git-lfs/git-lfs/v3/lfshttp"
)

func TestVerifReplayC15(t *testing.T) {
	for _, c := range []struct {
		key string
		val int
	}{
` + cases.String() + `	} {
		cli, err := lfsapi.NewClient(lfshttp.NewContext(nil, nil, map[string]string{c.key: strconv.Itoa(c.val)}))
		if err != nil {
			t.Fatal(err)
		}
		m := newConcreteManifest(nil, cli, "download", "origin")
		if m == nil {
			t.Fatal("no manifest")
		}
		switch c.key {
		case "lfs.transfer.maxretrydelay":
			want := c.val
			if c.val < 0 {
				want = 10
			}
			if m.maxRetryDelay != want {
				t.Errorf("REPRODUCED: %s=%d configured, the manifest works with a maximum retry delay of %d s (want %d)", c.key, c.val, m.maxRetryDelay, want)
			}
		case "lfs.transfer.maxretries":
			want := c.val
			if c.val < 1 {
				want = 8
			}
			if m.maxRetries != want {
				t.Errorf("REPRODUCED: %s=%d configured, the manifest works with %d retries (want %d)", c.key, c.val, m.maxRetries, want)
			}
		}
	}
}
`
	out, passed, err := runOverlayTest(w.repoDir, "tq", "zz_verif_replay_test.go", test, "TestVerifReplayC15")
	if err != nil {
		return false, note.String() + "replay could not run: " + err.Error() + "\n"
	}
	return !passed && strings.Contains(out, "REPRODUCED"), note.String() + trimOut(out)
}

// C01, merge driver: the counterexample is "the output file holds something
// when clean starts to write".  The replay runs the real processFiles with
// an output file that holds a previous (longer) pointer - the normal call,
// --output %A - and a merge program that produces a short text.

func replayMergeDriver(w *World) (bool, string) {
	test := `package commands

import (
	"crypto/sha256"
	"encoding/hex"
	"fmt"
	"os"
	"os/exec"
	"path/filepath"
	"strings"
	"testing"

	"github.com/git-lfs/git-lfs/v3/config"
)

func TestVerifReplayC01Merge(t *testing.T) {
	dir := t.TempDir()
	if out, err := exec.Command("git", "init", "-q", dir).CombinedOutput(); err != nil {
		t.Fatalf("git init: %v %s", err, out)
	}
	if err := os.Chdir(dir); err != nil {
		t.Fatal(err)
	}
	cfg = config.NewIn(dir, filepath.Join(dir, ".git"))
	outFile := filepath.Join(dir, "current.txt")
	prev := "version https://git-lfs.github.com/spec/v1\noid sha256:" + strings.Repeat("a", 64) + "\nsize 1000000\n"
	if err := os.WriteFile(outFile, []byte(prev), 0600); err != nil {
		t.Fatal(err)
	}
	specs := map[string]string{"L": "12"}
	for _, id := range []string{"A", "O", "B", "D"} {
		specs[id] = filepath.Join(dir, "tmp-"+id)
		os.WriteFile(specs[id], nil, 0600)
	}
	merged := "merged text\n"
	mergeDriverProgram = "printf 'merged text\\n' >%D"
	if _, err := processFiles(specs, mergeDriverProgram, outFile); err != nil {
		t.Fatalf("processFiles: %v", err)
	}
	got, _ := os.ReadFile(outFile)
	sum := sha256.Sum256([]byte(merged))
	want := fmt.Sprintf("version https://git-lfs.github.com/spec/v1\noid sha256:%s\nsize %d\n", hex.EncodeToString(sum[:]), len(merged))
	if string(got) != want {
		t.Errorf("REPRODUCED: the output file held a previous pointer of %d bytes; after the merge driver it holds %q, want exactly the new pointer %q", len(prev), got, want)
	}
}
`
	out, passed, err := runOverlayTest(w.repoDir, "commands", "zz_verif_replay_test.go", test, "TestVerifReplayC01Merge")
	if err != nil {
		return false, "replay could not run: " + err.Error() + "\n"
	}
	return !passed && strings.Contains(out, "REPRODUCED"), trimOut(out)
}

// C17, GetCredentialHelper writing state shared with earlier wrappers: the
// history is  wrapper for URL A (protection on by default)  ->  wrapper for URL
// B (credential.<B>.protectProtocol=false)  ->  the exchange for A.  The real
// command helper of A's wrapper is asked to run `git credential fill`.

func replayC17Shared(w *World) (bool, string) {
	test := `package creds

import (
	"net/url"
	"strings"
	"testing"

	"github.com/git-lfs/git-lfs/v3/config"
)

func TestVerifReplayC17Shared(t *testing.T) {
	t.Setenv("GIT_TERMINAL_PROMPT", "0")
	t.Setenv("GIT_ASKPASS", "")
	t.Setenv("HOME", t.TempDir())
	gitEnv := config.EnvironmentOf(config.MapFetcher(map[string][]string{
		"credential.https://legacy.example.com.protectprotocol": {"false"},
	}))
	osEnv := config.EnvironmentOf(config.MapFetcher(map[string][]string{}))
	ctxt := NewCredentialHelperContext(gitEnv, osEnv)
	uA, _ := url.Parse("https://user%0Dinjected@git.example.com/repo.git")
	uB, _ := url.Parse("https://legacy.example.com/old.git")
	wA := ctxt.GetCredentialHelper(nil, uA)
	_ = ctxt.GetCredentialHelper(nil, uB)
	hs, ok := wA.CredentialHelper.(*CredentialHelpers)
	if !ok || len(hs.helpers) == 0 {
		t.Fatalf("unexpected wrapper %T", wA.CredentialHelper)
	}
	cmd, ok := hs.helpers[len(hs.helpers)-1].(*commandCredentialHelper)
	if !ok {
		t.Fatalf("last helper is %T", hs.helpers[len(hs.helpers)-1])
	}
	_, err := cmd.exec("fill", wA.Input)
	if err == nil || !strings.Contains(err.Error(), "carriage return") {
		t.Errorf("REPRODUCED: the exchange for %s (protection on) was not refused although username=%q contains a carriage return - a wrapper for another URL with protectProtocol=false was built in between (err: %v)", uA.Host, wA.Input["username"][0], err)
	}
}
`
	out, passed, err := runOverlayTest(w.repoDir, "creds", "zz_verif_replay_test.go", test, "TestVerifReplayC17Shared")
	if err != nil {
		return false, "replay could not run: " + err.Error() + "\n"
	}
	return !passed && strings.Contains(out, "REPRODUCED"), trimOut(out)
}

// C06, a failed transfer that is neither retried nor reported: the only error
// class the code treats specially on that path is "unprocessable entity", so
// the replay uploads one object to a server that answers the PUT with 422.

func replayC06Unreported(w *World) (bool, string) {
	test := `package tq

import (
	"crypto/sha256"
	"encoding/hex"
	"encoding/json"
	"net/http"
	"net/http/httptest"
	"os"
	"path/filepath"
	"testing"
	"time"

	"github.com/git-lfs/git-lfs/v3/lfsapi"
	"github.com/git-lfs/git-lfs/v3/lfshttp"
)

func TestVerifReplayC06Unreported(t *testing.T) {
	content := []byte("some object content\n")
	sum := sha256.Sum256(content)
	oid := hex.EncodeToString(sum[:])
	var srv *httptest.Server
	srv = httptest.NewServer(http.HandlerFunc(func(w http.ResponseWriter, r *http.Request) {
		if r.Method == "PUT" {
			w.WriteHeader(422)
			return
		}
		w.Header().Set("Content-Type", "application/vnd.git-lfs+json")
		json.NewEncoder(w).Encode(map[string]interface{}{"transfer": "basic", "objects": []interface{}{map[string]interface{}{
			"oid": oid, "size": len(content),
			"actions": map[string]interface{}{"upload": map[string]interface{}{"href": srv.URL + "/storage/" + oid}},
		}}})
	}))
	defer srv.Close()
	cli, err := lfsapi.NewClient(lfshttp.NewContext(nil, nil, map[string]string{"lfs.url": srv.URL, "lfs.transfer.maxretries": "1"}))
	if err != nil {
		t.Fatal(err)
	}
	path := filepath.Join(t.TempDir(), "obj")
	os.WriteFile(path, content, 0600)
	delivered := 0
	q := NewTransferQueue(Upload, NewManifest(nil, cli, "upload", "origin"), "origin")
	watch := q.Watch()
	done := make(chan struct{})
	go func() {
		for range watch {
			delivered++
		}
		close(done)
	}()
	q.Add("obj", path, oid, int64(len(content)), false, nil)
	fin := make(chan struct{})
	go func() { q.Wait(); close(fin) }()
	select {
	case <-fin:
	case <-time.After(20 * time.Second):
		t.Fatal("Wait did not return")
	}
	<-done
	if delivered == 0 && len(q.Errors()) == 0 {
		t.Errorf("REPRODUCED: the upload was answered with 422; the object was not delivered to any watcher and Errors() is empty - it is not covered by any reported error")
	}
}
`
	out, passed, err := runOverlayTest(w.repoDir, "tq", "zz_verif_replay_test.go", test, "TestVerifReplayC06Unreported")
	if err != nil {
		return false, "replay could not run: " + err.Error() + "\n"
	}
	return !passed && strings.Contains(out, "REPRODUCED"), trimOut(out)
}

// C06, nil dereference while handling the batch response: the pointer the
// obligation is about is an element of the server's "objects" array (or an
// entry of an object's "actions").  JSON null is the value that makes it nil.

func replayC06NullObject(w *World, ob *Obligation) (bool, string) {
	body := `{"transfer":"basic","objects":[null]}`
	what := "a null element in the objects array"
	if strings.Contains(ob.Name, "createdAt") {
		body = `{"transfer":"basic","objects":[{"oid":"4d7a214614ab2935c943f9e0ff69d22eadbb8f32b1258daaa5e2ca24d17e2393","size":12,"actions":{"download":null}}]}`
		what = "a null action"
	}
	test := `package tq

import (
	"net/http"
	"net/http/httptest"
	"testing"

	"github.com/git-lfs/git-lfs/v3/lfsapi"
	"github.com/git-lfs/git-lfs/v3/lfshttp"
)

func TestVerifReplayC06Null(t *testing.T) {
	srv := httptest.NewServer(http.HandlerFunc(func(w http.ResponseWriter, r *http.Request) {
		w.Header().Set("Content-Type", "application/vnd.git-lfs+json")
		w.Write([]byte(` + "`" + body + "`" + `))
	}))
	defer srv.Close()
	cli, err := lfsapi.NewClient(lfshttp.NewContext(nil, nil, map[string]string{"lfs.url": srv.URL}))
	if err != nil {
		t.Fatal(err)
	}
	defer func() {
		if r := recover(); r != nil {
			t.Errorf("REPRODUCED: the batch response contained ` + what + `; handling it panicked: %v", r)
		}
	}()
	c := &tqClient{Client: cli}
	bRes, err := c.Batch("origin", &batchRequest{Operation: "download", Objects: []*Transfer{{Oid: "4d7a214614ab2935c943f9e0ff69d22eadbb8f32b1258daaa5e2ca24d17e2393", Size: 12}}})
	if err == nil && bRes != nil {
		for _, o := range bRes.Objects {
			if o == nil {
				t.Errorf("REPRODUCED: a response with a null object was handed on without error")
			}
		}
	}
}
`
	out, passed, err := runOverlayTest(w.repoDir, "tq", "zz_verif_replay_test.go", test, "TestVerifReplayC06Null")
	if err != nil {
		return false, "replay could not run: " + err.Error() + "\n"
	}
	return !passed && strings.Contains(out, "REPRODUCED"), trimOut(out)
}

// C15, makeRequest repeating the request for an authenticated action: the
// counterexample is t.Authenticated at the recursive call.  The replay sends
// such a transfer to a storage server that keeps answering 401 and counts.

func replayC15AuthLoop(w *World, upload bool) (bool, string) {
	adapter := "&basicDownloadAdapter{newAdapterBase(nil, \"basic\", Download, nil)}"
	method := "GET"
	if upload {
		adapter = "&basicUploadAdapter{newAdapterBase(nil, \"basic\", Upload, nil)}"
		method = "PUT"
	}
	test := `package tq

import (
	"net/http"
	"net/http/httptest"
	"os"
	"path/filepath"
	"sync/atomic"
	"testing"
	"time"

	"github.com/git-lfs/git-lfs/v3/lfsapi"
	"github.com/git-lfs/git-lfs/v3/lfshttp"
)

func TestVerifReplayC15AuthLoop(t *testing.T) {
	var hits int32
	srv := httptest.NewServer(http.HandlerFunc(func(w http.ResponseWriter, r *http.Request) {
		atomic.AddInt32(&hits, 1)
		w.WriteHeader(401)
	}))
	defer srv.Close()
	cli, err := lfsapi.NewClient(lfshttp.NewContext(nil, nil, map[string]string{"lfs.url": srv.URL}))
	if err != nil {
		t.Fatal(err)
	}
	a := ` + adapter + `
	a.apiClient = cli
	path := filepath.Join(t.TempDir(), "obj")
	os.WriteFile(path, []byte("some content\n"), 0600)
	tr := &Transfer{Oid: "4d7a214614ab2935c943f9e0ff69d22eadbb8f32b1258daaa5e2ca24d17e2393", Size: 13, Path: path, Authenticated: true}
	req, _ := http.NewRequest("` + method + `", srv.URL+"/obj", nil)
	done := make(chan struct{})
	go func() { a.makeRequest(tr, req); close(done) }()
	select {
	case <-done:
	case <-time.After(2 * time.Second):
	}
	if n := atomic.LoadInt32(&hits); n > 9 {
		t.Errorf("REPRODUCED: the action was marked authenticated and the storage host answered 401 every time: %d identical requests were sent within 2 s and makeRequest was still repeating (lfs.transfer.maxretries is 8)", n)
	}
}
`
	out, passed, err := runOverlayTest(w.repoDir, "tq", "zz_verif_replay_test.go", test, "TestVerifReplayC15AuthLoop")
	if err != nil {
		return false, "replay could not run: " + err.Error() + "\n"
	}
	return !passed && strings.Contains(out, "REPRODUCED"), trimOut(out)
}

// replayC15ReadyTime runs the real back-off calculation over the boundary
// values of lfs.transfer.maxretrydelay and every retry count up to 70 (the
// shift wraps at 64) and reports a wait that is longer than the configured
// maximum or lies in the past.
func replayC15ReadyTime(w *World) (bool, string) {
	test := `package tq

import (
	"testing"
	"time"
)

func TestVerifReplayC15ReadyTime(t *testing.T) {
	for _, max := range []int{0, 1, 2, 3, 10, 60, 3600} {
		for count := 1; count <= 70; count++ {
			r := newRetryCounter()
			r.MaxRetryDelay = max
			for i := 0; i < count; i++ {
				r.Increment("oid")
			}
			before := time.Now()
			ready := r.ReadyTime("oid")
			wait := ready.Sub(before)
			limit := time.Duration(max)*time.Second + 50*time.Millisecond
			if wait > limit || wait < -50*time.Millisecond {
				t.Fatalf("REPRODUCED: lfs.transfer.maxretrydelay=%d, retry %d of an object: ReadyTime asks to wait %v, the configured maximum is %ds", max, count, wait, max)
			}
		}
	}
}
`
	out, passed, err := runOverlayTest(w.repoDir, "tq", "zz_verif_replay_test.go", test, "TestVerifReplayC15ReadyTime")
	if err != nil {
		return false, "replay could not run: " + err.Error() + "\n"
	}
	return !passed && strings.Contains(out, "REPRODUCED"), trimOut(out)
}
