package main

import (
	"fmt"
	"go/token"
	"go/types"
	"strings"

	"golang.org/x/tools/go/ssa"
)

// run encodes all blocks of the frame starting from the entry state.
func (fr *frame) run(entry *State) {
	vc := fr.vc()
	fn := fr.fn
	fr.edges[fn.Blocks[0]] = []edgeIn{{cond: entry.reach, st: entry, from: -1}}
	for _, b := range fr.order {
		ins := fr.edges[b]
		if len(ins) == 0 {
			continue // unreachable (e.g. after panics)
		}
		var st *State
		if li := fr.loops[b]; li != nil {
			st = fr.enterLoop(b, li, ins)
		} else {
			st = vc.mergeStates(ins, fmt.Sprintf("%s.b%d", fr.prefix, b.Index))
			fr.phis(b, ins, st, nil)
		}
		fr.curBlock = b
		alive := true
		for i, instr := range b.Instrs {
			fr.curIdx = i
			if _, isPhi := instr.(*ssa.Phi); isPhi {
				continue
			}
			if !fr.instr(instr, st) {
				alive = false
				break
			}
			if st.reach == "false" {
				alive = false
				break
			}
		}
		if alive {
			fr.outSt[b] = st
		}
	}
}

func (fr *frame) addEdge(from, to *ssa.BasicBlock, cond string, st *State) {
	// back edge?
	if li := fr.loops[to]; li != nil && li.blocks[from] && to.Dominates(from) {
		fr.backEdge(from, to, li, cond, st)
		return
	}
	fr.edges[to] = append(fr.edges[to], edgeIn{cond: cond, st: st, from: from.Index})
}

// phis defines the phi nodes of b from the incoming forward edges.
func (fr *frame) phis(b *ssa.BasicBlock, ins []edgeIn, st *State, only map[int]bool) {
	vc := fr.vc()
	for _, instr := range b.Instrs {
		phi, ok := instr.(*ssa.Phi)
		if !ok {
			break
		}
		so := sortOf(phi.Type())
		var cands []Term
		var conds []string
		for _, e := range ins {
			// find edge index: preds may repeat; match by block index
			for pi, p := range b.Preds {
				if p.Index == e.from {
					cands = append(cands, fr.coerce(fr.val(phi.Edges[pi]), so))
					conds = append(conds, e.cond)
					break
				}
			}
		}
		if len(cands) == 1 {
			fr.vals[phi] = cands[0]
			continue
		}
		same := true
		for _, c := range cands[1:] {
			if c.S != cands[0].S {
				same = false
			}
		}
		if same && len(cands) > 0 {
			fr.vals[phi] = cands[0]
			continue
		}
		v := vc.freshConst(fr.prefix+"."+phi.Name()+phiComment(phi), so)
		for i := range cands {
			vc.fact(implies(conds[i], eq(v.S, cands[i].S)))
		}
		fr.vals[phi] = v
	}
}

func phiComment(p *ssa.Phi) string {
	if p.Comment != "" {
		return "." + p.Comment
	}
	return ""
}

func (fr *frame) coerce(t Term, so Sort) Term {
	if t.Sort == so {
		return t
	}
	// nil constant of wrong sort
	if t.S == "vnil" && so == SInt {
		return Term{"0", SInt}
	}
	if t.S == "0" && so == SV {
		return Term{"vnil", SV}
	}
	return t
}

// enterLoop implements the loop cut at header b.
func (fr *frame) enterLoop(b *ssa.BasicBlock, li *loopInfo, ins []edgeIn) *State {
	vc := fr.vc()
	e := fr.enc
	entry := vc.mergeStates(ins, fmt.Sprintf("%s.loop%d.entry", fr.prefix, li.ordinal))
	fr.phis(b, ins, entry, nil)
	fr.curBlock = b
	fr.curIdx = 0
	invs := fr.loopClauses(li)
	fr.checkAsserts(fmt.Sprintf("loop %d entry", li.ordinal), entry)
	// inv-init
	for i, cl := range invs {
		if cl.Kind != "invariant" {
			continue
		}
		if !e.tagActive(cl.Tags) {
			continue
		}
		ctx := fr.specCtx(entry, fr.oldState(), nil, b, -1)
		g, err := ctx.goal(cl.Expr)
		if err != nil {
			vc.warn("%s: loop %d invariant %q: %v", fr.fn, li.ordinal, cl.Text, err)
			fr.oblige("inv-init", "", fmt.Sprintf("loop%d#%d", li.ordinal, i), entry, "false", "untranslatable: "+cl.Text+": "+err.Error(), cl.Tags)
			continue
		}
		fr.oblige("inv-init", "", fmt.Sprintf("loop%d#%d", li.ordinal, i), entry, g, cl.Text, cl.Tags)
	}
	for i, auto := range fr.autoInvariants(b, li) {
		g := auto.at(func(p *ssa.Phi) Term { return fr.vals[p] })
		fr.oblige("inv-init", "auto", fmt.Sprintf("loop%d#auto%d", li.ordinal, i), entry, g, auto.desc, nil)
	}
	// havoc
	st := entry.clone()
	if li.mods == nil {
		li.mods = e.ms.loopMods(fr, li)
	}
	// allocations made by earlier iterations: the allocation mark is unknown but not smaller
	lh := vc.freshConst("hw", SInt)
	vc.fact(fmt.Sprintf("(>= %s %s)", lh.S, st.hw))
	st.hw = lh.S
	if li.mods.all || li.mods.heapAll {
		vc.warn("%s: loop %d modifies everything (%s)", shortFn(fr.fn), li.ordinal, li.mods.why)
	}
	fr.applyMods(st, li.mods, fmt.Sprintf("loop %d of %s", li.ordinal, fr.fn))
	li.hdrVals = map[ssa.Value]Term{}
	for _, instr := range b.Instrs {
		phi, ok := instr.(*ssa.Phi)
		if !ok {
			break
		}
		li.hdrVals[phi] = fr.vals[phi] // entry value
		v := vc.freshConst(fr.prefix+"."+phi.Name()+phiComment(phi)+".h", sortOf(phi.Type()))
		fr.vals[phi] = v
		fr.assumeType(v, phi.Type(), st)
	}
	// deferred flags set in loop: unsupported
	for i, cl := range invs {
		if cl.Kind != "invariant" {
			continue
		}
		ctx := fr.specCtx(st, fr.oldState(), nil, b, -1)
		g, err := ctx.trBool(cl.Expr)
		if err != nil {
			continue
		}
		_ = i
		fr.assume(st, g)
	}
	for _, auto := range fr.autoInvariants(b, li) {
		fr.assume(st, auto.at(func(p *ssa.Phi) Term { return fr.vals[p] }))
	}
	li.hdrSt = st.clone()
	return st
}

func (fr *frame) oldState() *State {
	return fr.root().old
}

func (fr *frame) loopClauses(li *loopInfo) []Clause {
	c := fr.contract
	if c == nil {
		c = fr.enc.db.ByKey[fr.fn.String()]
	}
	if c == nil {
		return nil
	}
	return c.Loops[li.ordinal]
}

type autoInv struct {
	desc string
	at   func(get func(*ssa.Phi) Term) string
}

// autoInvariants derives trivially inductive bounds for counting phis:
// p = phi[c, p+k] with k>0 gives p >= c.
func (fr *frame) autoInvariants(b *ssa.BasicBlock, li *loopInfo) []autoInv {
	var out []autoInv
	for _, instr := range b.Instrs {
		phi, ok := instr.(*ssa.Phi)
		if !ok {
			break
		}
		if sortOf(phi.Type()) != SInt {
			continue
		}
		if _, isInt := phi.Type().Underlying().(*types.Basic); !isInt {
			// reference-typed loop variable that only ever holds nil or objects
			// allocated in this function: it stays nil-or-fresh
			switch phi.Type().Underlying().(type) {
			case *types.Map, *types.Pointer:
				if freshLeaves(phi, phi, map[ssa.Value]bool{}, 0) {
					p := phi
					out = append(out, autoInv{desc: phi.Name() + phiComment(phi) + " is nil or allocated here (auto)", at: func(get func(*ssa.Phi) Term) string {
						t := get(p).S
						return fmt.Sprintf("(or (= %s 0) (>= (rootref %s) hw!0))", t, t)
					}})
				}
			}
			continue
		}
		var init *ssa.Const
		stepOK := true
		nBack := 0
		for pi, p := range b.Preds {
			ev := phi.Edges[pi]
			if li.blocks[p] && b.Dominates(p) {
				nBack++
				if ev == ssa.Value(phi) {
					continue
				}
				if inner, ok := ev.(*ssa.Phi); ok && phiMonotone(inner, phi, 0) {
					continue
				}
				bo, ok := ev.(*ssa.BinOp)
				if !ok || bo.Op != token.ADD || bo.X != phi {
					stepOK = false
					continue
				}
				c, ok := bo.Y.(*ssa.Const)
				if !ok || c.Value == nil || c.Int64() <= 0 {
					stepOK = false
				}
			} else {
				c, ok := ev.(*ssa.Const)
				if !ok || c.Value == nil {
					stepOK = false
					continue
				}
				if init != nil && init.Int64() != c.Int64() {
					stepOK = false
				}
				init = c
			}
		}
		if !stepOK || init == nil || nBack == 0 {
			continue
		}
		lo := smtInt(init.Int64())
		p := phi
		out = append(out, autoInv{desc: fmt.Sprintf("%s >= %d (auto)", phi.Name(), init.Int64()), at: func(get func(*ssa.Phi) Term) string {
			return fmt.Sprintf("(>= %s %s)", get(p).S, lo)
		}})
	}
	return out
}

// backEdge checks the invariants at a latch.
func (fr *frame) backEdge(from, to *ssa.BasicBlock, li *loopInfo, cond string, st *State) {
	vc := fr.vc()
	e := fr.enc
	// values of header phis along this edge
	next := map[*ssa.Phi]Term{}
	for _, instr := range to.Instrs {
		phi, ok := instr.(*ssa.Phi)
		if !ok {
			break
		}
		for pi, p := range to.Preds {
			if p == from {
				next[phi] = fr.val(phi.Edges[pi])
			}
		}
	}
	est := st.clone()
	r := vc.freshConst(fmt.Sprintf("reach!%s.latch%d", fr.prefix, from.Index), SBool)
	vc.fact(eq(r.S, cond))
	est.reach = r.S
	saved := map[*ssa.Phi]Term{}
	for p, t := range next {
		saved[p] = fr.vals[p]
		_ = t
	}
	invs := fr.loopClauses(li)
	fr.curBlock = from
	fr.curIdx = len(from.Instrs) - 1
	for i, cl := range invs {
		if !e.tagActive(cl.Tags) {
			continue
		}
		switch cl.Kind {
		case "invariant":
			// evaluate with phis := next values
			for p, t := range next {
				fr.vals[p] = t
			}
			ctx := fr.specCtx(est, fr.oldState(), nil, to, -1)
			g, err := ctx.goal(cl.Expr)
			for p := range next {
				fr.vals[p] = saved[p]
			}
			if err != nil {
				vc.warn("%s: loop %d invariant %q: %v", fr.fn, li.ordinal, cl.Text, err)
				continue
			}
			fr.oblige("inv-step", "", fmt.Sprintf("loop%d#%d/latch%d", li.ordinal, i, latchOrd(li, from)), est, g, cl.Text, cl.Tags)
		case "iter":
			ctx := fr.specCtx(est, fr.oldState(), li.hdrSt, from, len(from.Instrs))
			ctx.iterHdr = to
			ctx.phiNext = map[ssa.Value]Term{}
			for p, t := range next {
				ctx.phiNext[p] = t
			}
			g, err := ctx.goal(cl.Expr)
			if err != nil {
				vc.warn("%s: loop %d iter %q: %v", fr.fn, li.ordinal, cl.Text, err)
				fr.oblige("iter", "", fmt.Sprintf("loop%d#%d/latch%d", li.ordinal, i, latchOrd(li, from)), est, "false", "untranslatable: "+cl.Text+": "+err.Error(), cl.Tags)
				continue
			}
			fr.oblige("iter", "", fmt.Sprintf("loop%d#%d/latch%d", li.ordinal, i, latchOrd(li, from)), est, g, cl.Text, cl.Tags)
		case "decreases":
			ctx := fr.specCtx(li.hdrSt, fr.oldState(), nil, to, -1)
			before, err := ctx.tr(cl.Expr)
			if err != nil {
				vc.warn("%s: loop %d decreases: %v", fr.fn, li.ordinal, err)
				continue
			}
			for p, t := range next {
				fr.vals[p] = t
			}
			ctx2 := fr.specCtx(est, fr.oldState(), nil, to, -1)
			after, err2 := ctx2.tr(cl.Expr)
			for p := range next {
				fr.vals[p] = saved[p]
			}
			if err2 != nil {
				continue
			}
			fr.oblige("decreases", "", fmt.Sprintf("loop%d/latch%d", li.ordinal, latchOrd(li, from)), est,
				fmt.Sprintf("(and (>= %s 0) (< %s %s))", before.S, after.S, before.S), cl.Text, cl.Tags)
		}
	}
	for i, auto := range fr.autoInvariants(to, li) {
		g := auto.at(func(p *ssa.Phi) Term { return next[p] })
		fr.oblige("inv-step", "auto", fmt.Sprintf("loop%d#auto%d/latch%d", li.ordinal, i, latchOrd(li, from)), est, g, auto.desc, nil)
	}
}

func latchOrd(li *loopInfo, b *ssa.BasicBlock) int {
	for i, l := range li.latches {
		if l == b {
			return i + 1
		}
	}
	return 0
}

func (e *encoder) tagActive(tags []string) bool {
	if len(tags) == 0 || e.tag == "" {
		return true
	}
	props := 0
	for _, t := range tags {
		if t == e.tag {
			return true
		}
		if t != "local" && t != "assumed" && t != "checked" {
			props++
		}
	}
	return props == 0
}

// instr encodes one instruction; returns false if control does not continue
// within the block (terminator handled) .
func (fr *frame) instr(instr ssa.Instruction, st *State) bool {
	vc := fr.vc()
	b := fr.curBlock
	switch x := instr.(type) {
	case *ssa.DebugRef:
		return true
	case *ssa.Alloc:
		et := deref(x.Type())
		ref := fr.alloc(et, st)
		fr.vals[x] = ref
		fr.zeroInit(ref, et, st)
		fr.allocSpec(ref, et, st)
		if fr.private[x] {
			if _, isArr := et.Underlying().(*types.Array); !isArr {
				fr.priv = append(fr.priv, fr.cellsOf(ref, et)...)
			} else {
				fr.priv = append(fr.priv, privCell{vc.keyCell(et), ref.S})
			}
		}
	case *ssa.BinOp:
		fr.vals[x] = fr.binop(x, st)
	case *ssa.UnOp:
		fr.unop(x, st)
	case *ssa.Call:
		fr.call(x, x.Common(), st, x)
	case *ssa.ChangeType:
		fr.vals[x] = fr.val(x.X)
	case *ssa.ChangeInterface:
		fr.vals[x] = fr.val(x.X)
	case *ssa.Convert:
		fr.convert(x, st)
	case *ssa.MultiConvert:
		fr.vals[x] = vc.freshConst(fr.prefix+"."+x.Name(), sortOf(x.Type()))
	case *ssa.MakeInterface:
		v := fr.val(x.X)
		tag := vc.typeTag(x.X.Type())
		fr.vals[x] = Term{fmt.Sprintf("(mkif_%s %s %s)", v.Sort.Suffix(), tag, v.S), SV}
	case *ssa.Extract:
		tup := fr.tuples[x.Tuple]
		if tup == nil || x.Index >= len(tup) {
			vc.warn("%s: extract from unknown tuple %s", fr.fn, x.Tuple.Name())
			fr.vals[x] = vc.freshConst(fr.prefix+"."+x.Name(), sortOf(x.Type()))
		} else {
			fr.vals[x] = tup[x.Index]
		}
	case *ssa.Field:
		v := fr.val(x.X)
		su := x.X.Type().Underlying().(*types.Struct)
		f := su.Field(x.Field)
		so := sortOf(f.Type())
		fr.vals[x] = Term{fmt.Sprintf("(%s %s)", fr.enc.fldSel(x.X.Type(), f.Name(), so), v.S), so}
	case *ssa.FieldAddr:
		if fr.elemValueLval(x.X) != nil {
			// field of a slice/array element: the element's address is never nil
			fr.addrOf(x)
			break
		}
		p := fr.val(x.X)
		fr.oblige("safe", "nil", fr.nextAnchor("field:"+fieldName(x)), st, fmt.Sprintf("(not (= %s 0))", p.S), "nil dereference in field access", nil)
		fr.addrOf(x)
	case *ssa.IndexAddr:
		idx := fr.val(x.Index)
		switch xt := x.X.Type().Underlying().(type) {
		case *types.Slice:
			s := fr.val(x.X)
			fr.oblige("safe", "index", fr.nextAnchor("index"), st, fmt.Sprintf("(and (<= 0 %s) (< %s (sl_len %s)))", idx.S, idx.S, s.S), "index out of range", nil)
		case *types.Pointer:
			arr := xt.Elem().Underlying().(*types.Array)
			fr.oblige("safe", "index", fr.nextAnchor("index"), st, fmt.Sprintf("(and (<= 0 %s) (< %s %d))", idx.S, idx.S, arr.Len()), "index out of range", nil)
		}
		fr.addrOf(x)
	case *ssa.Index:
		idx := fr.val(x.Index)
		v := fr.val(x.X)
		so := sortOf(x.Type())
		switch xt := x.X.Type().Underlying().(type) {
		case *types.Basic: // string
			fr.oblige("safe", "index", fr.nextAnchor("index"), st, fmt.Sprintf("(and (<= 0 %s) (< %s (blen %s)))", idx.S, idx.S, v.S), "string index out of range", nil)
			fr.vals[x] = Term{fmt.Sprintf("(byte_at %s %s)", v.S, idx.S), SInt}
		case *types.Array:
			fr.oblige("safe", "index", fr.nextAnchor("index"), st, fmt.Sprintf("(and (<= 0 %s) (< %s %d))", idx.S, idx.S, xt.Len()), "index out of range", nil)
			fr.vals[x] = Term{fmt.Sprintf("(%s %s %s)", atFn(so), v.S, idx.S), so}
		default:
			fr.vals[x] = Term{fmt.Sprintf("(%s %s %s)", atFn(so), v.S, idx.S), so}
		}
	case *ssa.Lookup:
		fr.lookup(x, st)
	case *ssa.MapUpdate:
		m := fr.val(x.Map)
		mt := x.Map.Type().Underlying().(*types.Map)
		dom, val := vc.keyMap(mt)
		k := fr.val(x.Key)
		v := fr.val(x.Value)
		if nm := fr.nameOfValue(x.Map); nm != "" {
			fr.mapKV = &[2]tv{{k, x.Key.Type()}, {v, x.Value.Type()}}
			fr.checkAsserts("store-map "+nm, st)
			fr.mapKV = nil
		}
		fr.oblige("safe", "mapnil", fr.nextAnchor("mapupdate"), st, fmt.Sprintf("(not (= %s 0))", m.S), "assignment to entry in nil map", nil)
		fr.frameWrite(dom, m.S, st)
		vc.set(st, dom, fmt.Sprintf("(store %s %s (store (select %s %s) %s true))", vc.cur(st, dom), m.S, vc.cur(st, dom), m.S, k.S))
		vc.set(st, val, fmt.Sprintf("(store %s %s (store (select %s %s) %s %s))", vc.cur(st, val), m.S, vc.cur(st, val), m.S, k.S, v.S))
	case *ssa.MakeMap:
		mt := x.Type().Underlying().(*types.Map)
		dom, _ := vc.keyMap(mt)
		ref := fr.alloc(mt, st)
		fr.vals[x] = ref
		vc.set(st, dom, fmt.Sprintf("(store %s %s ((as const (Array %s Bool)) false))", vc.cur(st, dom), ref.S, sortOf(mt.Key())))
	case *ssa.MakeChan:
		fr.vals[x] = fr.alloc(x.Type(), st)
	case *ssa.MakeSlice:
		ln := fr.val(x.Len)
		cp := fr.val(x.Cap)
		fr.oblige("safe", "makeslice", fr.nextAnchor("makeslice"), st, fmt.Sprintf("(and (<= 0 %s) (<= %s %s))", ln.S, ln.S, cp.S), "makeslice: len out of range", nil)
		s := vc.freshConst(fr.prefix+"."+x.Name(), SV)
		vc.fact(fmt.Sprintf("(and (= (sl_len %s) %s) (= (sl_cap %s) %s) (= (sl_off %s) 0) (not (= %s vnil)))", s.S, ln.S, s.S, cp.S, s.S, s.S))
		base := fr.alloc(x.Type(), st)
		vc.fact(eq(fmt.Sprintf("(sl_base %s)", s.S), base.S))
		if isByteSlice(x.Type()) {
			bm := vc.keyBM()
			z := vc.freshConst("zeros", SV)
			vc.fact(eq(fmt.Sprintf("(blen %s)", z.S), cp.S))
			vc.set(st, bm, fmt.Sprintf("(store %s %s %s)", vc.cur(st, bm), base.S, z.S))
		} else {
			zero := fr.enc.zeroValue(x.Type().Underlying().(*types.Slice).Elem())
			vc.fact(fmt.Sprintf("(forall ((i Int)) (! (= (%s %s i) %s) :pattern ((%s %s i))))", atFn(zero.Sort), s.S, zero.S, atFn(zero.Sort), s.S))
		}
		fr.vals[x] = s
	case *ssa.MakeClosure:
		name := vc.freshConst(fr.prefix+".closure."+x.Fn.Name(), SV)
		vc.fact(fmt.Sprintf("(not (= %s vnil))", name.S))
		fr.vals[x] = name
	case *ssa.Slice:
		fr.slice(x, st)
	case *ssa.Range:
		fr.vals[x] = fr.val(x.X)
	case *ssa.Next:
		fr.next(x, st)
	case *ssa.TypeAssert:
		fr.typeAssert(x, st)
	case *ssa.Select:
		var tup []Term
		tup = append(tup, vc.freshConst(fr.prefix+".selidx", SInt), vc.freshConst(fr.prefix+".selok", SBool))
		n := 0
		for _, s := range x.States {
			if s.Dir == types.RecvOnly {
				et := s.Chan.Type().Underlying().(*types.Chan).Elem()
				t := vc.freshConst(fr.prefix+".selrecv", sortOf(et))
				fr.assumeType(t, et, st)
				tup = append(tup, t)
			}
			n++
		}
		lo := 0
		if !x.Blocking {
			lo = -1
		}
		vc.fact(fmt.Sprintf("(and (<= %d %s) (< %s %d))", lo, tup[0].S, tup[0].S, n))
		fr.tuples[x] = tup
		fr.vals[x] = tup[0]
		fr.ghostSelectSends(x, st)
		for i, s := range x.States {
			if s.Dir == types.RecvOnly {
				// a receive arm: counted when it is the arm taken and a value arrived
				fr.ghostRecv(s.Chan, and(eq(tup[0].S, fmt.Sprint(i)), tup[1].S), st)
			}
		}
	case *ssa.Send:
		if nm := fr.nameOfValue(x.Chan); nm != "" {
			fr.mapKV = &[2]tv{{fr.val(x.X), x.X.Type()}, {fr.val(x.X), x.X.Type()}}
			fr.checkAsserts("send "+nm, st)
			fr.mapKV = nil
		}
		fr.ghostSend(x.Chan, x.X, st)
	case *ssa.Go:
		fr.goStmt(x, st)
	case *ssa.Defer:
		fr.deferN++
		st.defers = append(st.defers, &deferRec{site: fr.siteID(x), flag: "true", instr: x, fr: fr})
	case *ssa.RunDefers:
		fr.runDefers(st)
	case *ssa.Store:
		lv := fr.addrOf(x.Addr)
		fr.checkNil(x.Addr, st, "store")
		fr.store(lv, fr.coerce(fr.val(x.Val), sortOf(x.Val.Type())), st)
	case *ssa.If:
		c := fr.val(x.Cond)
		rc := vc.freshConst(fmt.Sprintf("reach!%s.b%d.end", fr.prefix, b.Index), SBool)
		vc.fact(eq(rc.S, st.reach))
		fr.addEdge(b, b.Succs[0], and(rc.S, c.S), st)
		fr.addEdge(b, b.Succs[1], and(rc.S, not(c.S)), st)
		return false
	case *ssa.Jump:
		fr.addEdge(b, b.Succs[0], st.reach, st)
		return false
	case *ssa.Return:
		var res []Term
		for _, r := range x.Results {
			res = append(res, fr.coerce(fr.val(r), sortOf(r.Type())))
		}
		fr.retOrd++
		fr.rets = append(fr.rets, retRec{cond: st.reach, st: st, results: res, idx: fr.retOrd, blk: fr.curBlock, pos: fr.curIdx})
		return false
	case *ssa.Panic:
		if fr.enc.safeAll {
			fr.oblige("safe", "panic", fr.nextAnchor("panic"), st, "false", "explicit panic reachable", nil)
		}
		return false
	default:
		vc.warn("%s: unsupported instruction %T; result havoced", fr.fn, instr)
		if v, ok := instr.(ssa.Value); ok {
			fr.vals[v] = vc.freshConst(fr.prefix+"."+v.Name(), sortOf(v.Type()))
		}
	}
	return true
}

func (fr *frame) siteID(d *ssa.Defer) int {
	id := 0
	for _, b := range fr.fn.Blocks {
		for _, ins := range b.Instrs {
			if dd, ok := ins.(*ssa.Defer); ok {
				id++
				if dd == d {
					return fr.depth*1000 + id
				}
			}
		}
	}
	return -1
}

func fieldName(x *ssa.FieldAddr) string {
	su := deref(x.X.Type()).Underlying().(*types.Struct)
	return su.Field(x.Field).Name()
}

func (fr *frame) nextAnchor(base string) string {
	fr.callOrd[base]++
	return fmt.Sprintf("%s:%d", base, fr.callOrd[base])
}

func (fr *frame) checkNil(addr ssa.Value, st *State, what string) {
	switch addr.(type) {
	case *ssa.Alloc, *ssa.FieldAddr, *ssa.IndexAddr, *ssa.Global:
		return
	}
	p := fr.val(addr)
	fr.oblige("safe", "nil", fr.nextAnchor(what), st, fmt.Sprintf("(not (= %s 0))", p.S), "nil pointer dereference", nil)
}

func (fr *frame) binop(x *ssa.BinOp, st *State) Term {
	vc := fr.vc()
	a := fr.val(x.X)
	b := fr.val(x.Y)
	// nil constants adopt the sort of the other operand
	if a.Sort != b.Sort {
		a = fr.coerce(a, b.Sort)
		b = fr.coerce(b, a.Sort)
	}
	t := x.X.Type()
	bt, isBasic := t.Underlying().(*types.Basic)
	switch x.Op {
	case token.EQL:
		return Term{eq(a.S, b.S), SBool}
	case token.NEQ:
		return Term{not(eq(a.S, b.S)), SBool}
	}
	if isBasic && bt.Info()&types.IsString != 0 {
		switch x.Op {
		case token.ADD:
			return Term{fmt.Sprintf("(scat %s %s)", a.S, b.S), SV}
		case token.LSS:
			return Term{fmt.Sprintf("(str_lt %s %s)", a.S, b.S), SBool}
		case token.GTR:
			return Term{fmt.Sprintf("(str_lt %s %s)", b.S, a.S), SBool}
		case token.LEQ:
			return Term{fmt.Sprintf("(not (str_lt %s %s))", b.S, a.S), SBool}
		case token.GEQ:
			return Term{fmt.Sprintf("(not (str_lt %s %s))", a.S, b.S), SBool}
		}
	}
	if a.Sort == SBool {
		switch x.Op {
		case token.AND, token.LAND:
			return Term{and(a.S, b.S), SBool}
		case token.OR, token.LOR:
			return Term{or(a.S, b.S), SBool}
		}
	}
	if a.Sort == SInt && (isBasic || true) {
		switch x.Op {
		case token.LSS:
			return Term{fmt.Sprintf("(< %s %s)", a.S, b.S), SBool}
		case token.LEQ:
			return Term{fmt.Sprintf("(<= %s %s)", a.S, b.S), SBool}
		case token.GTR:
			return Term{fmt.Sprintf("(> %s %s)", a.S, b.S), SBool}
		case token.GEQ:
			return Term{fmt.Sprintf("(>= %s %s)", a.S, b.S), SBool}
		}
		var r string
		checkRange := false
		switch x.Op {
		case token.ADD:
			r = fmt.Sprintf("(+ %s %s)", a.S, b.S)
			checkRange = true
		case token.SUB:
			r = fmt.Sprintf("(- %s %s)", a.S, b.S)
			checkRange = true
		case token.MUL:
			r = fmt.Sprintf("(* %s %s)", a.S, b.S)
			checkRange = true
		case token.QUO:
			fr.oblige("safe", "div", fr.nextAnchor("div"), st, fmt.Sprintf("(not (= %s 0))", b.S), "division by zero", nil)
			r = fmt.Sprintf("(godiv %s %s)", a.S, b.S)
		case token.REM:
			fr.oblige("safe", "div", fr.nextAnchor("rem"), st, fmt.Sprintf("(not (= %s 0))", b.S), "division by zero", nil)
			r = fmt.Sprintf("(gorem %s %s)", a.S, b.S)
		case token.SHL:
			if c, ok := x.Y.(*ssa.Const); ok && c.Value != nil && c.Int64() >= 0 && c.Int64() < 63 {
				r = fmt.Sprintf("(* %s %d)", a.S, int64(1)<<uint(c.Int64()))
				checkRange = true
			} else {
				r = fmt.Sprintf("(int_shl %s %s)", a.S, b.S)
			}
		case token.SHR:
			if c, ok := x.Y.(*ssa.Const); ok && c.Value != nil && c.Int64() >= 0 && c.Int64() < 63 {
				r = fmt.Sprintf("(div %s %d)", a.S, int64(1)<<uint(c.Int64()))
			} else {
				r = fmt.Sprintf("(int_shr %s %s)", a.S, b.S)
			}
		case token.AND:
			r = fmt.Sprintf("(int_and %s %s)", a.S, b.S)
		case token.OR:
			r = fmt.Sprintf("(int_or %s %s)", a.S, b.S)
		case token.XOR:
			r = fmt.Sprintf("(int_xor %s %s)", a.S, b.S)
		case token.AND_NOT:
			r = fmt.Sprintf("(int_andnot %s %s)", a.S, b.S)
		}
		if r != "" {
			if checkRange {
				if lo, hi, ok := intRange(x.Type()); ok {
					fr.oblige("safe", "overflow", fr.nextAnchor("arith"), st, fmt.Sprintf("(and (<= %s %s) (<= %s %s))", lo, r, r, hi), "integer overflow", nil)
				}
			}
			return Term{r, SInt}
		}
	}
	// floats, complex and anything else: uninterpreted
	res := vc.freshConst(fr.prefix+"."+x.Name(), sortOf(x.Type()))
	return res
}

func (fr *frame) unop(x *ssa.UnOp, st *State) {
	vc := fr.vc()
	switch x.Op {
	case token.NOT:
		fr.vals[x] = Term{not(fr.val(x.X).S), SBool}
	case token.SUB:
		a := fr.val(x.X)
		if a.Sort == SInt {
			fr.vals[x] = Term{fmt.Sprintf("(- %s)", a.S), SInt}
		} else {
			fr.vals[x] = vc.freshConst(fr.prefix+"."+x.Name(), sortOf(x.Type()))
		}
	case token.XOR:
		fr.vals[x] = Term{fmt.Sprintf("(int_not %s)", fr.val(x.X).S), SInt}
	case token.MUL:
		// load
		if g, ok := x.X.(*ssa.Global); ok {
			if t, ok := fr.enc.consts.valueOf(fr, g); ok {
				fr.vals[x] = t
				return
			}
		}
		fr.checkNil(x.X, st, "load")
		lv := fr.addrOf(x.X)
		fr.lastLoadHW = ""
		v := fr.load(lv, st)
		// name the loaded value to keep terms small
		n := vc.freshConst(fr.prefix+"."+x.Name(), v.Sort)
		vc.fact(eq(n.S, v.S))
		fr.assumeTypeGuarded(n, x.Type(), st)
		if fr.lastLoadHW != "" {
			// every reference stored in a heap version existed when the version was created
			switch x.Type().Underlying().(type) {
			case *types.Pointer, *types.Map, *types.Chan:
				// (only for objects that already existed then: fresh objects returned by
				// callees are modelled as unallocated cells of the same version)
				fr.assume(st, fmt.Sprintf("(=> (< (rootref %s) %s) (< %s %s))", fr.lastLoadBase, fr.lastLoadHW, n.S, fr.lastLoadHW))
			}
		}
		fr.vals[x] = n
	case token.ARROW:
		et := x.X.Type().Underlying().(*types.Chan).Elem()
		v := vc.freshConst(fr.prefix+".recv", sortOf(et))
		fr.assumeType(v, et, st)
		okT := "true"
		if x.CommaOk {
			ok := vc.freshConst(fr.prefix+".recvok", SBool)
			fr.tuples[x] = []Term{v, ok}
			okT = ok.S
		}
		fr.vals[x] = v
		fr.ghostRecv(x.X, okT, st)
	default:
		fr.vals[x] = vc.freshConst(fr.prefix+"."+x.Name(), sortOf(x.Type()))
	}
}

// assumeTypeGuarded: range of values read from memory (guarded by reach so a
// contradictory heap cannot poison unrelated paths).
func (fr *frame) assumeTypeGuarded(t Term, ty types.Type, st *State) {
	if lo, hi, ok := intRange(ty); ok {
		fr.assume(st, fmt.Sprintf("(and (<= %s %s) (<= %s %s))", lo, t.S, t.S, hi))
		return
	}
	switch ty.Underlying().(type) {
	case *types.Pointer, *types.Map, *types.Chan:
		fr.assume(st, fmt.Sprintf("(< %s %s)", t.S, st.hw))
	}
}

func (fr *frame) convert(x *ssa.Convert, st *State) {
	vc := fr.vc()
	from := x.X.Type().Underlying()
	to := x.Type().Underlying()
	v := fr.val(x.X)
	fb, fIsB := from.(*types.Basic)
	tb, tIsB := to.(*types.Basic)
	switch {
	case fIsB && tIsB && fb.Info()&types.IsInteger != 0 && tb.Info()&types.IsInteger != 0:
		lo, hi, _ := intRange(x.Type())
		flo, fhi, _ := intRange(x.X.Type())
		if rangeWithin(flo, fhi, lo, hi) {
			fr.vals[x] = v
		} else {
			// exact two's-complement conversion: reduce modulo 2^bits into [lo,hi]
			fr.oblige("safe", "overflow", fr.nextAnchor("convert"), st, fmt.Sprintf("(and (<= %s %s) (<= %s %s))", lo, v.S, v.S, hi), "integer conversion out of range", nil)
			mod := modulusOf(x.Type())
			r := vc.freshConst(fr.prefix+"."+x.Name(), SInt)
			vc.fact(fmt.Sprintf("(and (<= %s %s) (<= %s %s) (= (mod (- %s %s) %s) 0))", lo, r.S, r.S, hi, r.S, v.S, mod))
			fr.vals[x] = r
		}
	case fIsB && fb.Info()&types.IsString != 0 && isByteSlice(x.Type()):
		// []byte(s): fresh backing array holding s
		s := vc.freshConst(fr.prefix+"."+x.Name(), SV)
		base := fr.alloc(x.Type(), st)
		vc.fact(fmt.Sprintf("(and (= (sl_len %s) (blen %s)) (= (sl_cap %s) (blen %s)) (= (sl_off %s) 0) (= (sl_base %s) %s))", s.S, v.S, s.S, v.S, s.S, s.S, base.S))
		bm := vc.keyBM()
		vc.set(st, bm, fmt.Sprintf("(store %s %s %s)", vc.cur(st, bm), base.S, v.S))
		fr.vals[x] = s
	case tIsB && tb.Info()&types.IsString != 0 && isByteSlice(x.X.Type()):
		fr.vals[x] = fr.bytesOf(v, st)
	case fIsB && tIsB && fb.Info()&types.IsString != 0 && tb.Info()&types.IsString != 0:
		fr.vals[x] = v
	case tIsB && tb.Info()&types.IsString != 0 && fIsB && fb.Info()&types.IsInteger != 0:
		fr.vals[x] = Term{fmt.Sprintf("(str_of_rune %s)", v.S), SV}
	default:
		if sortOf(x.X.Type()) == sortOf(x.Type()) && sortOf(x.Type()) == SInt {
			fr.vals[x] = v // pointer <-> unsafe.Pointer
		} else {
			fr.vals[x] = vc.freshConst(fr.prefix+"."+x.Name(), sortOf(x.Type()))
		}
	}
}

func rangeWithin(flo, fhi, lo, hi string) bool {
	n := func(s string) (float64, bool) {
		neg := false
		if strings.HasPrefix(s, "(- ") {
			neg = true
			s = strings.TrimSuffix(strings.TrimPrefix(s, "(- "), ")")
		}
		var f float64
		_, err := fmt.Sscanf(s, "%g", &f)
		if neg {
			f = -f
		}
		return f, err == nil
	}
	a, ok1 := n(flo)
	b, ok2 := n(fhi)
	c, ok3 := n(lo)
	d, ok4 := n(hi)
	return ok1 && ok2 && ok3 && ok4 && a >= c && b <= d
}

// bytesOf gives the byte content (a V "Bytes" value) of a []byte slice value.
func (fr *frame) bytesOf(s Term, st *State) Term {
	vc := fr.vc()
	bm := vc.keyBM()
	return Term{fmt.Sprintf("(bsub (select %s (sl_base %s)) (sl_off %s) (+ (sl_off %s) (sl_len %s)))", vc.cur(st, bm), s.S, s.S, s.S, s.S), SV}
}

func (fr *frame) lookup(x *ssa.Lookup, st *State) {
	vc := fr.vc()
	switch mt := x.X.Type().Underlying().(type) {
	case *types.Map:
		m := fr.val(x.X)
		k := fr.val(x.Index)
		dom, val := vc.keyMap(mt)
		has := fmt.Sprintf("(select (select %s %s) %s)", vc.cur(st, dom), m.S, k.S)
		vso := sortOf(mt.Elem())
		raw := fmt.Sprintf("(select (select %s %s) %s)", vc.cur(st, val), m.S, k.S)
		zero := fr.enc.zeroValue(mt.Elem())
		v := vc.freshConst(fr.prefix+"."+x.Name(), vso)
		vc.fact(eq(v.S, ite(has, raw, zero.S)))
		fr.assumeTypeGuarded(v, mt.Elem(), st)
		if x.CommaOk {
			ok := vc.freshConst(fr.prefix+"."+x.Name()+".ok", SBool)
			vc.fact(eq(ok.S, has))
			fr.tuples[x] = []Term{v, ok}
		}
		fr.vals[x] = v
	default: // string index
		s := fr.val(x.X)
		i := fr.val(x.Index)
		fr.oblige("safe", "index", fr.nextAnchor("index"), st, fmt.Sprintf("(and (<= 0 %s) (< %s (blen %s)))", i.S, i.S, s.S), "string index out of range", nil)
		fr.vals[x] = Term{fmt.Sprintf("(byte_at %s %s)", s.S, i.S), SInt}
	}
}

func (fr *frame) slice(x *ssa.Slice, st *State) {
	vc := fr.vc()
	v := fr.val(x.X)
	lo := Term{"0", SInt}
	if x.Low != nil {
		lo = fr.val(x.Low)
	}
	switch xt := x.X.Type().Underlying().(type) {
	case *types.Basic: // string
		hi := Term{fmt.Sprintf("(blen %s)", v.S), SInt}
		if x.High != nil {
			hi = fr.val(x.High)
		}
		fr.oblige("safe", "slice", fr.nextAnchor("slice"), st, fmt.Sprintf("(and (<= 0 %s) (<= %s %s) (<= %s (blen %s)))", lo.S, lo.S, hi.S, hi.S, v.S), "slice bounds out of range", nil)
		fr.vals[x] = Term{fmt.Sprintf("(bsub %s %s %s)", v.S, lo.S, hi.S), SV}
	case *types.Slice:
		hi := Term{fmt.Sprintf("(sl_len %s)", v.S), SInt}
		if x.High != nil {
			hi = fr.val(x.High)
		}
		fr.oblige("safe", "slice", fr.nextAnchor("slice"), st, fmt.Sprintf("(and (<= 0 %s) (<= %s %s) (<= %s (sl_cap %s)))", lo.S, lo.S, hi.S, hi.S, v.S), "slice bounds out of range", nil)
		r := vc.freshConst(fr.prefix+"."+x.Name(), SV)
		vc.fact(eq(r.S, fmt.Sprintf("(sl_slice %s %s %s)", v.S, lo.S, hi.S)))
		fr.vals[x] = r
	case *types.Pointer: // pointer to array
		arr := xt.Elem().Underlying().(*types.Array)
		hi := Term{fmt.Sprint(arr.Len()), SInt}
		if x.High != nil {
			hi = fr.val(x.High)
		}
		lv := fr.addrOf(x.X)
		content := fr.load(lv, st)
		r := vc.freshConst(fr.prefix+"."+x.Name(), SV)
		vc.fact(eq(r.S, fmt.Sprintf("(sl_of_arr %s %s %s)", content.S, lo.S, hi.S)))
		vc.fact(eq(fmt.Sprintf("(sl_cap %s)", r.S), fmt.Sprintf("(- %d %s)", arr.Len(), lo.S)))
		if x.Low == nil && x.High == nil && arr.Len() <= 8 && sortOf(arr.Elem()) == SV {
			// a slice literal: name its elements, so that quantified facts
			// about slice membership have ground terms to match
			for i := int64(0); i < arr.Len(); i++ {
				vc.fact(fmt.Sprintf("(= (at_V %s %d) (at_V %s %d))", r.S, i, content.S, i))
			}
		}
		if isByte(arr.Elem()) {
			base := fr.alloc(x.Type(), st)
			vc.fact(eq(fmt.Sprintf("(sl_base %s)", r.S), base.S))
		}
		fr.vals[x] = r
	default:
		fr.vals[x] = vc.freshConst(fr.prefix+"."+x.Name(), SV)
	}
}

func (fr *frame) next(x *ssa.Next, st *State) {
	vc := fr.vc()
	ok := vc.freshConst(fr.prefix+"."+x.Name()+".ok", SBool)
	tt := x.Type().(*types.Tuple)
	if x.IsString {
		k := vc.freshConst(fr.prefix+"."+x.Name()+".k", SInt)
		v := vc.freshConst(fr.prefix+"."+x.Name()+".v", SInt)
		fr.tuples[x] = []Term{ok, k, v}
		return
	}
	rng, _ := x.Iter.(*ssa.Range)
	var mt *types.Map
	if rng != nil {
		mt, _ = rng.X.Type().Underlying().(*types.Map)
	}
	kt := tt.At(1).Type()
	vt := tt.At(2).Type()
	k := vc.freshConst(fr.prefix+"."+x.Name()+".k", sortOf(kt))
	v := vc.freshConst(fr.prefix+"."+x.Name()+".v", sortOf(vt))
	if mt != nil {
		m := fr.val(rng.X)
		dom, val := vc.keyMap(mt)
		if _, invalid := kt.(*types.Basic); !(invalid && kt.(*types.Basic).Kind() == types.Invalid) {
			fr.assume(st, implies(ok.S, fmt.Sprintf("(select (select %s %s) %s)", vc.cur(st, dom), m.S, k.S)))
			fr.assumeTypeGuarded(k, mt.Key(), st)
		}
		if b, isB := vt.(*types.Basic); !(isB && b.Kind() == types.Invalid) {
			v = vc.freshConst(fr.prefix+"."+x.Name()+".v", sortOf(mt.Elem()))
			fr.assume(st, implies(ok.S, eq(v.S, fmt.Sprintf("(select (select %s %s) %s)", vc.cur(st, val), m.S, k.S))))
			fr.assumeTypeGuarded(v, mt.Elem(), st)
		}
	}
	fr.tuples[x] = []Term{ok, k, v}
}

func (fr *frame) typeAssert(x *ssa.TypeAssert, st *State) {
	vc := fr.vc()
	v := fr.val(x.X)
	var ok string
	var res Term
	if types.IsInterface(x.AssertedType) {
		o := vc.freshConst(fr.prefix+"."+x.Name()+".ok", SBool)
		vc.fact(implies(o.S, fmt.Sprintf("(not (= %s vnil))", v.S)))
		// functional in the value: same dynamic value, same answer
		fn := "implements:" + typeKey(x.AssertedType)
		vc.declFun(fn, []string{"V"}, "Bool")
		vc.fact(eq(o.S, fmt.Sprintf("(and (not (= %s vnil)) (%s %s))", v.S, sym(fn), v.S)))
		ok = o.S
		res = v
	} else {
		tag := vc.typeTag(x.AssertedType)
		ok = fmt.Sprintf("(and (not (= %s vnil)) (= (itag %s) %s))", v.S, v.S, tag)
		so := sortOf(x.AssertedType)
		res = Term{fmt.Sprintf("(ipay_%s %s)", so.Suffix(), v.S), so}
	}
	if x.CommaOk {
		okc := vc.freshConst(fr.prefix+"."+x.Name()+".ok", SBool)
		vc.fact(eq(okc.S, ok))
		zero := fr.enc.zeroValue(x.AssertedType)
		r := vc.freshConst(fr.prefix+"."+x.Name(), res.Sort)
		vc.fact(eq(r.S, ite(okc.S, res.S, zero.S)))
		fr.tuples[x] = []Term{r, okc}
		fr.vals[x] = r
		return
	}
	fr.oblige("safe", "typeassert", fr.nextAnchor("typeassert"), st, ok, "failed type assertion", nil)
	fr.vals[x] = res
}

func (fr *frame) runDefers(st *State) {
	vc := fr.vc()
	// run this frame's defers in reverse order
	var mine []*deferRec
	var rest []*deferRec
	for _, d := range st.defers {
		if d.fr == fr {
			mine = append(mine, d)
		} else {
			rest = append(rest, d)
		}
	}
	st.defers = rest
	for i := len(mine) - 1; i >= 0; i-- {
		d := mine[i]
		x := d.instr.(*ssa.Defer)
		if d.flag == "false" {
			continue
		}
		if d.flag == "true" {
			fr.call(nil, x.Common(), st, x)
			continue
		}
		// conditional: execute on a branch and merge
		yes := st.clone()
		ry := vc.freshConst("reach!"+fr.prefix+".defer", SBool)
		vc.fact(eq(ry.S, and(st.reach, d.flag)))
		yes.reach = ry.S
		fr.call(nil, x.Common(), yes, x)
		no := st.clone()
		rn := vc.freshConst("reach!"+fr.prefix+".nodefer", SBool)
		vc.fact(eq(rn.S, and(st.reach, not(d.flag))))
		no.reach = rn.S
		m := vc.mergeStates([]edgeIn{{cond: yes.reach, st: yes}, {cond: no.reach, st: no}}, fr.prefix+".deferjoin")
		*st = *m
	}
}

func (fr *frame) goStmt(x *ssa.Go, st *State) {
	// assertions may be anchored at the spawn ("go <callee>:k"), with the arguments visible
	c := x.Common()
	if _, isB := c.Value.(*ssa.Builtin); !isB {
		var args []Term
		var argTypes []types.Type
		for _, a := range c.Args {
			args = append(args, fr.coerce(fr.val(a), sortOf(a.Type())))
			argTypes = append(argTypes, a.Type())
		}
		anchor := fr.callAnchor(fr.anchorNameOf(c), x)
		fr.callArgs, fr.callArgTypes = args, argTypes
		fr.checkAsserts("go "+anchor, st)
		fr.callArgs = nil
	}
	// The spawned goroutine is not interleaved; everything it can reach is
	// treated as modified from here on.
	fr.havocEverything(st, true, "go "+calleeName(x.Common()))
	fr.spawnMonitors(c, st)
}

func calleeName(c *ssa.CallCommon) string {
	if c.IsInvoke() {
		return c.Method.FullName()
	}
	if f := c.StaticCallee(); f != nil {
		return f.String()
	}
	return "dynamic:" + c.Value.Name()
}

// allocSpec applies the ghost initialisation declared for freshly allocated
// objects of a type ("func new:<type>" in the spec files).
func (fr *frame) allocSpec(ref Term, et types.Type, st *State) {
	ct := fr.enc.db.ByKey["new:"+typeKey(et)]
	if ct == nil {
		return
	}
	fr.vc().usedSpecs["contract:"+ct.Key] = true
	ctx := &specCtx{fr: fr, st: st, old: st, params: map[string]Term{}, ptypes: map[string]types.Type{}, bound: map[string]Term{}}
	ctx.results = []Term{ref}
	ctx.rtypes = []types.Type{types.NewPointer(et)}
	ctx.rnames = []string{""}
	for _, m := range ct.Mods {
		fr.applyModSpec(m, ctx, st)
	}
	for _, cl := range ct.Ensures {
		g, err := ctx.trBool(cl.Expr)
		if err != nil {
			fr.vc().warn("alloc spec %s: %v", ct.Key, err)
			continue
		}
		fr.assume(st, g)
	}
}

// nameOfValue finds a source-level variable name bound to an SSA value.
func (fr *frame) nameOfValue(v ssa.Value) string {
	for _, b := range fr.fn.Blocks {
		for _, nb := range fr.names[b] {
			if nb.val == v && !nb.addr {
				return nb.name
			}
		}
	}
	if p, ok := v.(*ssa.Parameter); ok {
		return p.Name()
	}
	// loaded from a named local cell
	if u, ok := v.(*ssa.UnOp); ok {
		if a, ok := u.X.(*ssa.Alloc); ok {
			return a.Comment
		}
		for _, b := range fr.fn.Blocks {
			for _, nb := range fr.names[b] {
				if nb.val == u.X && nb.addr {
					return nb.name
				}
			}
		}
	}
	return ""
}

func modulusOf(t types.Type) string {
	b := t.Underlying().(*types.Basic)
	switch b.Kind() {
	case types.Int8, types.Uint8:
		return "256"
	case types.Int16, types.Uint16:
		return "65536"
	case types.Int32, types.Uint32:
		return "4294967296"
	}
	return "18446744073709551616"
}

// phiMonotone: every incoming value of inner is base itself, base + positive
// constant, or another such phi (covers "continue" paths that leave a counter
// unchanged and join before the latch).
func phiMonotone(inner *ssa.Phi, base *ssa.Phi, depth int) bool {
	if depth > 4 {
		return false
	}
	for _, e := range inner.Edges {
		if e == ssa.Value(base) {
			continue
		}
		if bo, ok := e.(*ssa.BinOp); ok && bo.Op == token.ADD && bo.X == ssa.Value(base) {
			if c, ok := bo.Y.(*ssa.Const); ok && c.Value != nil && c.Int64() > 0 {
				continue
			}
		}
		if p, ok := e.(*ssa.Phi); ok && p != inner && phiMonotone(p, base, depth+1) {
			continue
		}
		return false
	}
	return true
}

// freshLeaves: every value flowing into v (through phis) is nil, an
// allocation of this function, or the loop phi itself.
func freshLeaves(v ssa.Value, self *ssa.Phi, seen map[ssa.Value]bool, depth int) bool {
	if seen[v] {
		return true
	}
	seen[v] = true
	if depth > 6 {
		return false
	}
	switch x := v.(type) {
	case *ssa.Phi:
		for _, e := range x.Edges {
			if !freshLeaves(e, self, seen, depth+1) {
				return false
			}
		}
		return true
	case *ssa.Const:
		return x.Value == nil
	case *ssa.MakeMap, *ssa.Alloc:
		return true
	}
	return false
}
