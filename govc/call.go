package main

import (
	"fmt"
	"go/types"
	"sort"
	"strings"

	"golang.org/x/tools/go/ssa"
)

func (fr *frame) setResult(v ssa.Value, res []Term) {
	if v == nil {
		return
	}
	if _, isTuple := v.Type().(*types.Tuple); isTuple {
		fr.tuples[v] = res
		return
	}
	if len(res) == 1 {
		fr.vals[v] = res[0]
	}
}

func resultTypes(sig *types.Signature) (ts []types.Type, names []string) {
	r := sig.Results()
	for i := 0; i < r.Len(); i++ {
		ts = append(ts, r.At(i).Type())
		names = append(names, r.At(i).Name())
	}
	return
}

// advanceHW: the callee may have allocated objects.
func (fr *frame) advanceHW(st *State) {
	vc := fr.vc()
	h := vc.freshConst("hw", SInt)
	vc.fact(fmt.Sprintf("(>= %s %s)", h.S, st.hw))
	st.hw = h.S
}

func (fr *frame) freshResults(sig *types.Signature, st *State, label string) []Term {
	vc := fr.vc()
	ts, _ := resultTypes(sig)
	var out []Term
	for i, t := range ts {
		r := vc.freshConst(fmt.Sprintf("%s.%s.r%d", fr.prefix, label, i), sortOf(t))
		fr.assumeTypeGuarded(r, t, st)
		out = append(out, r)
	}
	return out
}

// call encodes a call (also used for defer'd calls, v == nil).
func (fr *frame) call(v ssa.Value, c *ssa.CallCommon, st *State, site ssa.Instruction) {
	vc := fr.vc()
	e := fr.enc
	if b, ok := c.Value.(*ssa.Builtin); ok {
		if b.Name() == "close" && site != nil {
			// closing a channel is a program point contracts can anchor at
			fr.callArgs = []Term{fr.val(c.Args[0])}
			fr.callArgTypes = []types.Type{c.Args[0].Type()}
			fr.checkAsserts("call "+fr.callAnchor("close", site), st)
			fr.callArgs = nil
		}
		fr.builtin(v, b, c, st)
		return
	}
	sig := c.Signature()
	var args []Term
	var argTypes []types.Type
	if c.IsInvoke() {
		recv := fr.val(c.Value)
		args = append(args, recv)
		argTypes = append(argTypes, c.Value.Type())
	}
	for _, a := range c.Args {
		args = append(args, fr.coerce(fr.val(a), sortOf(a.Type())))
		argTypes = append(argTypes, a.Type())
	}
	label := sanitizeLabel(calleeName(c))

	// resolve callee
	var callee *ssa.Function
	var bindings []ssa.Value
	key := ""
	if c.IsInvoke() {
		key = c.Method.FullName()
		// devirtualise if the receiver was built from a concrete value here
		if mi, ok := c.Value.(*ssa.MakeInterface); ok {
			if f := e.prog.LookupMethod(mi.X.Type(), c.Method.Pkg(), c.Method.Name()); f != nil {
				if _, has := e.db.ByKey[key]; !has {
					callee = f
					key = f.String()
					args[0] = fr.val(mi.X)
					argTypes[0] = mi.X.Type()
				}
			}
		}
	} else if f := c.StaticCallee(); f != nil {
		callee = f
		key = f.String()
		if mc, ok := c.Value.(*ssa.MakeClosure); ok {
			bindings = mc.Bindings
		}
	} else if mc := fr.closureOf(c.Value); mc != nil {
		callee = mc.Fn.(*ssa.Function)
		key = callee.String()
		bindings = mc.Bindings
	}
	if callee != nil && callee.Origin() != nil {
		if _, ok := e.db.ByKey[key]; !ok {
			key = callee.Origin().String()
		}
	}
	if callee == nil && !c.IsInvoke() {
		// call of a function value: a contract may be attached to its (named) type
		k := "functype:" + types.TypeString(c.Value.Type(), nil)
		if _, ok := e.db.ByKey[k]; ok {
			key = k
		}
	}
	anchor := fr.callAnchor(anchorName(key, c), site)
	fr.callArgs = args
	fr.callArgTypes = argTypes
	fr.checkAsserts("call "+anchor, st)
	fr.callArgs = nil
	if rc := fr.root().contract; rc != nil {
		for _, fb := range rc.Forbid {
			if fb == anchorName(key, c) {
				fr.oblige("assert", "", "forbidden:"+anchor, st, "false", "call to "+fb+" is forbidden here by the contract", nil)
			}
		}
	}

	// nil receiver check for invoke
	if c.IsInvoke() {
		fr.oblige("safe", "nil", anchor, st, fmt.Sprintf("(not (= %s vnil))", args[0].S), "method call on nil interface", nil)
	}

	if ct := e.db.ByKey[key]; ct != nil && !ct.Inline {
		var pnames []string
		if callee != nil {
			for _, p := range callee.Params {
				pnames = append(pnames, p.Name())
			}
		} else {
			pnames = append(pnames, "recv")
			for i := 0; i < sig.Params().Len(); i++ {
				pnames = append(pnames, sig.Params().At(i).Name())
			}
		}
		var bterms []Term
		for _, b := range bindings {
			bterms = append(bterms, fr.val(b))
		}
		fr.curCall, fr.curSite = c, site
		res := fr.applyContract(ct, callee, sig, pnames, args, argTypes, bterms, st, anchor)
		fr.setResult(v, res)
		return
	}
	// pure packages: results are uninterpreted functions of the arguments
	if e.isPureCallee(c, callee) {
		fr.advanceHW(st)
		res := fr.pureCall(key, sig, args, argTypes, st, label)
		fr.setResult(v, res)
		return
	}
	if callee != nil && e.db.NoEffect[key] {
		fr.advanceHW(st)
		fr.setResult(v, fr.freshResults(sig, st, label))
		return
	}
	// inline repository functions without contract
	if callee != nil && len(callee.Blocks) > 0 && e.inRepo(callee) && fr.depth < maxInlineDepth && !fr.onStack(callee) {
		res, ok := fr.inline(callee, args, bindings, st)
		if ok {
			fr.setResult(v, res)
			return
		}
	}
	// unknown: havoc everything reachable
	why := key
	if why == "" {
		why = "dynamic call " + c.Value.Name() + " in " + shortFn(fr.fn)
	}
	vc.warn("%s: call to %s has no contract and is not inlined: all state havoced", shortFn(fr.fn), why)
	if e.cannotCallBack(c, callee) {
		fr.havocEverythingBut(st, why)
	} else {
		fr.havocEverything(st, false, why)
	}
	fr.setResult(v, fr.freshResults(sig, st, label))
}

func sanitizeLabel(s string) string {
	if i := strings.LastIndex(s, "/"); i >= 0 {
		s = s[i+1:]
	}
	return strings.NewReplacer("(", "", ")", "", "*", "", " ", "").Replace(s)
}

func anchorName(key string, c *ssa.CallCommon) string {
	if key == "" {
		return "dyncall"
	}
	s := key
	// shorten module path
	if i := strings.LastIndex(s, "/"); i >= 0 {
		pre := ""
		if strings.HasPrefix(s, "(*") {
			pre = "(*"
		} else if strings.HasPrefix(s, "(") {
			pre = "("
		}
		s = pre + s[i+1:]
	}
	return s
}

func (fr *frame) closureOf(v ssa.Value) *ssa.MakeClosure {
	switch x := v.(type) {
	case *ssa.MakeClosure:
		return x
	}
	return nil
}

func (fr *frame) onStack(fn *ssa.Function) bool {
	for f := fr; f != nil; f = f.parent {
		if f.fn == fn {
			return true
		}
	}
	return false
}

func (e *encoder) isPureCallee(c *ssa.CallCommon, callee *ssa.Function) bool {
	if callee == nil {
		return false
	}
	pkg := callee.Pkg
	if pkg == nil && callee.Origin() != nil {
		pkg = callee.Origin().Pkg
	}
	if pkg == nil {
		// methods of instantiated generics / synthetic wrappers
		if callee.Object() != nil && callee.Object().Pkg() != nil {
			return e.db.PurePkgs[callee.Object().Pkg().Path()]
		}
		return false
	}
	return e.db.PurePkgs[pkg.Pkg.Path()]
}

// pureCall models a side-effect free library call: each result is an
// uninterpreted function of the (value-sorted) arguments, so equal arguments
// give equal results.  Pointer-like arguments make the result fresh.
func (fr *frame) pureCall(key string, sig *types.Signature, args []Term, argTypes []types.Type, st *State, label string) []Term {
	vc := fr.vc()
	functional := true
	for _, t := range argTypes {
		switch t.Underlying().(type) {
		case *types.Pointer, *types.Map, *types.Chan, *types.Interface, *types.Signature:
			functional = false
		}
		if isByteSlice(t) {
			functional = false
		}
	}
	ts, _ := resultTypes(sig)
	if !functional {
		return fr.freshResults(sig, st, label)
	}
	var out []Term
	var sorts []string
	var as []string
	for _, a := range args {
		sorts = append(sorts, a.Sort.String())
		as = append(as, a.S)
	}
	for i, t := range ts {
		fn := fmt.Sprintf("pure:%s#%d", key, i)
		so := sortOf(t)
		vc.declFun(fn, sorts, so.String())
		var term string
		if len(as) == 0 {
			term = sym(fn)
		} else {
			term = "(" + sym(fn) + " " + strings.Join(as, " ") + ")"
		}
		r := vc.freshConst(fmt.Sprintf("%s.%s.r%d", fr.prefix, label, i), so)
		vc.fact(eq(r.S, term))
		fr.assumeTypeGuarded(r, t, st)
		out = append(out, r)
	}
	return out
}

// applyContract: assert requires, havoc modifies, assume ensures.
func (fr *frame) applyContract(ct *Contract, callee *ssa.Function, sig *types.Signature, pnames []string, args []Term, argTypes []types.Type, bindings []Term, st *State, anchor string) []Term {
	vc := fr.vc()
	e := fr.enc
	vc.usedSpecs["contract:"+ct.Key] = true
	if len(ct.Params) > 0 {
		pnames = ct.Params
	}
	ctx := &specCtx{fr: fr, st: st, old: st, params: map[string]Term{}, ptypes: map[string]types.Type{}, bound: map[string]Term{}}
	if callee != nil && callee.Pkg != nil {
		ctx.pkg = callee.Pkg.Pkg
	} else if callee != nil && callee.Parent() != nil && callee.Parent().Pkg != nil {
		ctx.pkg = callee.Parent().Pkg.Pkg
	} else if fr.fn.Pkg != nil {
		ctx.pkg = fr.fn.Pkg.Pkg
	}
	for i, a := range args {
		if i < len(pnames) && pnames[i] != "" && pnames[i] != "_" {
			ctx.params[pnames[i]] = a
			ctx.ptypes[pnames[i]] = argTypes[i]
		}
		ctx.params[fmt.Sprintf("a%d", i)] = a
		ctx.ptypes[fmt.Sprintf("a%d", i)] = argTypes[i]
	}
	// captured variables of closures are visible by name (as their values)
	if callee != nil {
		ctx.capt = map[string]tv{}
		for i, fv := range callee.FreeVars {
			if i < len(bindings) {
				ctx.capt[fv.Name()] = tv{bindings[i], fv.Type()}
			}
		}
	}
	for i, cl := range ct.Requires {
		if !e.tagActive(cl.Tags) {
			continue
		}
		g, err := ctx.goal(cl.Expr)
		if err != nil {
			vc.warn("contract %s requires %q: %v", ct.Key, cl.Text, err)
			fr.oblige("pre", "", fmt.Sprintf("%s#%d", anchor, i), st, "false", "untranslatable: "+cl.Text, cl.Tags)
			continue
		}
		fr.oblige("pre", "", fmt.Sprintf("%s#%d", anchor, i), st, g, cl.Text, cl.Tags)
	}
	// termination measure: calls inside a recursion group must decrease it
	if root := fr.root(); root.contract != nil && root.contract.Decreases != nil && ct.Decreases != nil &&
		(ct == root.contract || (ct.RecGroup != "" && ct.RecGroup == root.contract.RecGroup)) {
		rctx := root.specCtx(root.old, root.old, nil, nil, 0)
		before, err1 := rctx.tr(root.contract.Decreases.Expr)
		after, err2 := ctx.tr(ct.Decreases.Expr)
		if err1 == nil && err2 == nil {
			goal := fmt.Sprintf("(and (>= %s 0) (< %s %s))", before.S, after.S, before.S)
			text := ct.Decreases.Text
			if root.contract.Decreases2 != nil && ct.Decreases2 != nil {
				b2, e1 := rctx.tr(root.contract.Decreases2.Expr)
				a2, e2 := ctx.tr(ct.Decreases2.Expr)
				if e1 == nil && e2 == nil {
					goal = fmt.Sprintf("(and (>= %s 0) (or (< %s %s) (and (= %s %s) (>= %s 0) (< %s %s))))", before.S, after.S, before.S, after.S, before.S, b2.S, a2.S, b2.S)
					text += ", " + ct.Decreases2.Text + " (lexicographic)"
				}
			}
			fr.oblige("decreases", "", anchor, st, goal,
				"recursive call must decrease: "+text, ct.Decreases.Tags)
		} else {
			vc.warn("decreases of %s: %v %v", ct.Key, err1, err2)
		}
	}
	pre := st.clone()
	preFacts := len(vc.facts)
	fr.advanceHW(st)
	res := fr.freshResults(sig, st, sanitizeLabel(ct.Key))
	// effects (modifies items may mention the results, e.g. ghost state of a new object)
	mctx := *ctx
	mctx.old = pre
	mctx.results = res
	mctx.rtypes, mctx.rnames = resultTypes(sig)
	if mctx.results == nil {
		mctx.results = []Term{}
	}
	fr.pendingFrame = nil
	fr.deferFrame = true
	if ct.HasMods || ct.Trusted {
		for _, m := range ct.Mods {
			fr.applyModSpec(m, &mctx, st)
		}
	} else if callee != nil && len(callee.Blocks) > 0 {
		ms := e.ms.funcMods(callee)
		if ms.all || ms.heapAll || len(ms.keys) > 0 {
			what := "callee " + ct.Key + " has no modifies clause"
			ghost := ms.all
			for k := range ms.keys {
				if strings.HasPrefix(k, "G:") {
					ghost = true
				}
			}
			if !ghost {
				what = "heap-only:" + what
			}
			if ms.all {
				what += " [" + ms.why + "]"
			}
			if ms.book {
				vc.warn("%s: callee %s may run unknown code (%s): bookkeeping ghosts havoced", shortFn(fr.fn), ct.Key, ms.bookWhy)
			}
			fr.keepBook = !ms.book
			fr.frameHavoc(st, what)
			fr.keepBook = false
		}
		fr.applyMods(st, ms, "call "+ct.Key)
	} else {
		fr.havocEverything(st, false, ct.Key)
	}
	post := *ctx
	post.st = st
	post.old = pre
	post.results = res
	post.rtypes, post.rnames = resultTypes(sig)
	for _, cl := range ct.Ensures {
		if hasTag(cl.Tags, "local") {
			// proved for the function itself, not handed to callers (keeps heavy
			// quantified facts out of every caller's queries)
			continue
		}
		g, err := post.trBool(cl.Expr)
		if err != nil {
			vc.warn("contract %s ensures %q: %v", ct.Key, cl.Text, err)
			continue
		}
		if hasTag(cl.Tags, "assumed") && !ct.Trusted && !ct.NoVerify {
			vc.usedSpecs["contract:assumed postcondition of "+shortKey(ct.Key)+": "+cl.Text] = true
		}
		if g == "false" {
			// the callee does not return (os.Exit, panic helpers)
			st.reach = "false"
			continue
		}
		fr.assume(st, g)
	}
	// what the contract promises must be compatible with what is known here: a
	// contradiction would silently make every path through this call infeasible
	if fr.parent == nil && len(ct.Ensures) > 0 && st.reach != "false" {
		base := fmt.Sprintf("%s#vacuity@ret:%s%s", shortFn(e.root), fr.anchorPrefix(), anchor)
		e.callCovers = append(e.callCovers,
			&Obligation{Name: base + "/before", Kind: "vacuity", Sub: "callpre", Guard: pre.reach, Goal: "false", NFacts: preFacts, Expect: "sat", Func: shortFn(e.root), Desc: "call site reachable"},
			&Obligation{Name: base, Kind: "vacuity", Sub: "callret", Guard: st.reach, Goal: "false", NFacts: len(vc.facts), Expect: "sat", Func: shortFn(e.root), PairOf: base + "/before",
				Desc: "what the contract of " + ct.Key + " ensures is compatible with what is known at this call"})
	}
	// callbacks the callee runs (e.g. sync.Once.Do): executed here, on a branch
	for _, inv := range ct.Invokes {
		fr.invokeArg(inv, ct, pnames, &post, pre, st)
	}
	// monitors: specification-only records of the call's verdict
	for _, mon := range ct.Monitors {
		g := e.db.Ghosts[mon.Ghost]
		if g == nil || g.Key == nil {
			vc.warn("monitor: unknown ghost map %s", mon.Ghost)
			continue
		}
		k, err1 := post.tr(mon.Key)
		v, err2 := post.tr(mon.Val)
		if err1 != nil || err2 != nil {
			vc.warn("monitor %s: %v %v", mon.Text, err1, err2)
			continue
		}
		key := vc.keyGhost(g)
		vc.set(st, key, fmt.Sprintf("(store %s %s %s)", vc.cur(st, key), k.S, v.S))
	}
	// frame obligations of the callee's effects are checked knowing what it ensures
	// (e.g. that the object whose ghost state it initialised is fresh)
	fr.deferFrame = false
	for _, f := range fr.pendingFrame {
		f()
	}
	fr.pendingFrame = nil
	return res
}

func cloneTermMap(m map[string]Term) map[string]Term {
	n := map[string]Term{}
	for k, v := range m {
		n[k] = v
	}
	return n
}

func (fr *frame) applyModSpec(m ModSpec, ctx *specCtx, st *State) {
	vc := fr.vc()
	switch m.Kind {
	case "fresh":
	case "all":
		fr.havocEverythingBut(st, "modifies all")
	case "everything":
		fr.havocEverything(st, false, "modifies everything")
	case "heap":
		fr.havocEverything(st, true, "modifies heap")
	case "ghost":
		g := fr.enc.db.Ghosts[m.Name]
		if g == nil {
			vc.warn("modifies: unknown ghost %s", m.Name)
			return
		}
		fr.frameGhostWhole(vc.keyGhost(g), st)
		vc.bump(st, vc.keyGhost(g))
		if m.Name == "chsent" || m.Name == "chrecvd" {
			// the per-element-type variants
			for _, k := range vc.allKeys() {
				if strings.HasPrefix(k, "G:"+m.Name+"#") {
					fr.frameGhostWhole(k, st)
					vc.bump(st, k)
				}
			}
		}
	case "ghostwhere":
		g := fr.enc.db.Ghosts[m.Name]
		if g == nil || g.Key == nil {
			vc.warn("modifies: unknown ghost map %s", m.Name)
			return
		}
		key := vc.keyGhost(g)
		pred, err := ctx.regionPred(m, *g.Key)
		if err != nil {
			vc.warn("modifies %s: %v", m.Text, err)
			fr.frameGhostWhole(key, st)
			vc.bump(st, key)
			return
		}
		// the frame of the caller: every key the callee may touch must be allowed
		fr.frameGhostRegion(key, pred, *g.Key, st)
		oldv := vc.cur(st, key)
		nv := vc.bump(st, key)
		q := "q!r"
		vc.fact(fmt.Sprintf("(forall ((%s %s)) (! (=> (not %s) (= (select %s %s) (select %s %s))) :pattern ((select %s %s))))", q, *g.Key, pred(q), nv, q, oldv, q, nv, q))
	case "ghostat":
		g := fr.enc.db.Ghosts[m.Name]
		if g == nil || g.Key == nil {
			vc.warn("modifies: unknown ghost map %s", m.Name)
			return
		}
		k, err := ctx.tr(m.Expr)
		if err != nil {
			vc.warn("modifies %s: %v", m.Text, err)
			vc.bump(st, vc.keyGhost(g))
			return
		}
		key := vc.keyGhost(g)
		cond := ""
		if m.Cond != nil {
			c, err := ctx.trBool(m.Cond)
			if err != nil {
				vc.warn("modifies %s: %v", m.Text, err)
			} else {
				cond = c
			}
		}
		fr.frameGhostAt(key, k.S, st, cond)
		fv := vc.freshConst("gh."+m.Name, g.Val)
		if cond != "" {
			vc.set(st, key, ite(cond, fmt.Sprintf("(store %s %s %s)", vc.cur(st, key), k.S, fv.S), vc.cur(st, key)))
		} else {
			vc.set(st, key, fmt.Sprintf("(store %s %s %s)", vc.cur(st, key), k.S, fv.S))
		}
	case "field":
		obj, err := ctx.tr(m.Expr)
		if err != nil || obj.ty == nil {
			vc.warn("modifies %s: %v", m.Text, err)
			fr.havocEverything(st, true, "bad modifies "+m.Text)
			return
		}
		t := deref(obj.ty)
		su, ok := t.Underlying().(*types.Struct)
		if !ok {
			vc.warn("modifies %s: not a struct", m.Text)
			return
		}
		for i := 0; i < su.NumFields(); i++ {
			f := su.Field(i)
			if f.Name() == m.Fld {
				if isStruct(f.Type()) {
					vc.warn("modifies %s: struct-typed field; havoc of nested fields", m.Text)
					sub := Term{fmt.Sprintf("(%s %s)", fr.enc.faFun(t, f.Name()), obj.S), SInt}
					for _, c := range fr.cellsOf(sub, f.Type()) {
						fv := vc.freshConst("fld", vc.kinds[c.key].Val)
						vc.set(st, c.key, fmt.Sprintf("(store %s %s %s)", vc.cur(st, c.key), c.idx, fv.S))
					}
					return
				}
				key := vc.keyField(t, f.Name(), sortOf(f.Type()))
				fr.frameWrite(key, obj.S, st)
				fv := vc.freshConst("fld."+f.Name(), sortOf(f.Type()))
				fr.assumeTypeGuarded(fv, f.Type(), st)
				vc.set(st, key, fmt.Sprintf("(store %s %s %s)", vc.cur(st, key), obj.S, fv.S))
				return
			}
		}
		vc.warn("modifies %s: no such field", m.Text)
	case "fields":
		obj, err := ctx.tr(m.Expr)
		if err != nil || obj.ty == nil {
			vc.warn("modifies %s: %v", m.Text, err)
			fr.havocEverything(st, true, "bad modifies "+m.Text)
			return
		}
		for _, c := range fr.cellsOf(obj.Term, deref(obj.ty)) {
			fr.frameWrite(c.key, c.idx, st)
			fv := vc.freshConst("fld", vc.kinds[c.key].Val)
			vc.set(st, c.key, fmt.Sprintf("(store %s %s %s)", vc.cur(st, c.key), c.idx, fv.S))
		}
	case "cell":
		obj, err := ctx.tr(m.Expr)
		if err != nil || obj.ty == nil {
			vc.warn("modifies %s: %v", m.Text, err)
			return
		}
		et := deref(obj.ty)
		if isStruct(et) {
			for _, c := range fr.cellsOf(obj.Term, et) {
				fv := vc.freshConst("fld", vc.kinds[c.key].Val)
				vc.set(st, c.key, fmt.Sprintf("(store %s %s %s)", vc.cur(st, c.key), c.idx, fv.S))
			}
			return
		}
		key := vc.keyCell(et)
		fr.frameWrite(key, obj.S, st)
		fv := vc.freshConst("cell", sortOf(et))
		fr.assumeTypeGuarded(fv, et, st)
		vc.set(st, key, fmt.Sprintf("(store %s %s %s)", vc.cur(st, key), obj.S, fv.S))
	case "bytes":
		obj, err := ctx.tr(m.Expr)
		if err != nil {
			vc.warn("modifies %s: %v", m.Text, err)
			return
		}
		bm := vc.keyBM()
		fr.frameWrite(bm, fmt.Sprintf("(sl_base %s)", obj.S), st)
		fv := vc.freshConst("bytes", SV)
		vc.set(st, bm, fmt.Sprintf("(store %s (sl_base %s) %s)", vc.cur(st, bm), obj.S, fv.S))
	case "map":
		obj, err := ctx.tr(m.Expr)
		if err != nil || obj.ty == nil {
			vc.warn("modifies %s: %v", m.Text, err)
			return
		}
		mt, ok := obj.ty.Underlying().(*types.Map)
		if !ok {
			return
		}
		dom, val := vc.keyMap(mt)
		fr.frameWrite(dom, obj.S, st)
		for _, k := range []string{dom, val} {
			kk := vc.kinds[k]
			fv := vc.fresh("mapc")
			vc.declConst(fv, fmt.Sprintf("(Array %s %s)", kk.Kidx, kk.Val))
			vc.set(st, k, fmt.Sprintf("(store %s %s %s)", vc.cur(st, k), obj.S, sym(fv)))
		}
	case "key":
		if vc.kinds[m.Name] != nil {
			fr.havocKeys(st, []string{m.Name})
		}
	case "captured":
		a, ok := ctx.capt[m.Name]
		if !ok {
			// verifying the closure itself or unknown name: nothing to do at a call site
			return
		}
		et := deref(a.ty)
		for _, c := range fr.cellsOf(a.Term, et) {
			fr.frameWrite(c.key, c.idx, st)
			fv := vc.freshConst("capt", vc.kinds[c.key].Val)
			vc.set(st, c.key, fmt.Sprintf("(store %s %s %s)", vc.cur(st, c.key), c.idx, fv.S))
		}
	case "mapkey":
		obj, err := ctx.tr(m.Expr)
		if err != nil || obj.ty == nil {
			vc.warn("modifies %s: %v", m.Text, err)
			return
		}
		k, err := ctx.tr(m.Key)
		if err != nil {
			vc.warn("modifies %s: %v", m.Text, err)
			return
		}
		mt, ok := obj.ty.Underlying().(*types.Map)
		if !ok {
			return
		}
		dom, val := vc.keyMap(mt)
		fr.frameWrite(dom, obj.S, st)
		db := vc.freshConst("mk.has", SBool)
		vv := vc.freshConst("mk.val", sortOf(mt.Elem()))
		vc.set(st, dom, fmt.Sprintf("(store %s %s (store (select %s %s) %s %s))", vc.cur(st, dom), obj.S, vc.cur(st, dom), obj.S, k.S, db.S))
		vc.set(st, val, fmt.Sprintf("(store %s %s (store (select %s %s) %s %s))", vc.cur(st, val), obj.S, vc.cur(st, val), obj.S, k.S, vv.S))
	}
}

// inline splices the body of callee at the call site.
func (fr *frame) inline(callee *ssa.Function, args []Term, bindings []ssa.Value, st *State) ([]Term, bool) {
	vc := fr.vc()
	cf := fr.enc.newFrame(callee, fr)
	cf.contract = fr.enc.db.ByKey[callee.String()]
	if err := cf.analyse(); err != nil {
		vc.warn("%s: cannot inline %s: %v", shortFn(fr.fn), callee, err)
		return nil, false
	}
	for i, p := range callee.Params {
		if i < len(args) {
			cf.vals[p] = args[i]
		}
	}
	for i, fv := range callee.FreeVars {
		if i < len(bindings) {
			cf.vals[fv] = fr.val(bindings[i])
		}
	}
	entry := st.clone()
	cf.run(entry)
	if len(cf.rets) == 0 {
		// never returns normally
		st.reach = "false"
		return fr.freshResults(callee.Signature, st, "noreturn"), true
	}
	var ins []edgeIn
	for _, r := range cf.rets {
		ins = append(ins, edgeIn{cond: r.cond, st: r.st})
	}
	m := vc.mergeStates(ins, cf.prefix+".ret")
	ts, _ := resultTypes(callee.Signature)
	var res []Term
	for i, t := range ts {
		if len(cf.rets) == 1 {
			res = append(res, cf.rets[0].results[i])
			continue
		}
		r := vc.freshConst(fmt.Sprintf("%s.ret%d", cf.prefix, i), sortOf(t))
		for _, rr := range cf.rets {
			vc.fact(implies(rr.cond, eq(r.S, rr.results[i].S)))
		}
		res = append(res, r)
	}
	// the callee's private cells stay private knowledge of the caller chain
	fr.priv = append(fr.priv, cf.priv...)
	*st = *m
	return res, true
}

func (fr *frame) builtin(v ssa.Value, b *ssa.Builtin, c *ssa.CallCommon, st *State) {
	vc := fr.vc()
	name := b.Name()
	arg := func(i int) Term { return fr.val(c.Args[i]) }
	switch name {
	case "len":
		a := arg(0)
		switch t := c.Args[0].Type().Underlying().(type) {
		case *types.Basic:
			fr.vals[v] = Term{fmt.Sprintf("(blen %s)", a.S), SInt}
		case *types.Slice:
			fr.vals[v] = Term{fmt.Sprintf("(sl_len %s)", a.S), SInt}
		case *types.Map:
			dom, _ := vc.keyMap(t)
			so := sortOf(t.Key())
			fn := "map_card_" + so.Suffix()
			fr.vals[v] = Term{fmt.Sprintf("(%s (select %s %s))", fn, vc.cur(st, dom), a.S), SInt}
		case *types.Array:
			fr.vals[v] = Term{fmt.Sprint(t.Len()), SInt}
		case *types.Pointer:
			fr.vals[v] = Term{fmt.Sprint(t.Elem().Underlying().(*types.Array).Len()), SInt}
		default:
			r := vc.freshConst(fr.prefix+".len", SInt)
			vc.fact(fmt.Sprintf("(>= %s 0)", r.S))
			fr.vals[v] = r
		}
	case "cap":
		a := arg(0)
		if _, ok := c.Args[0].Type().Underlying().(*types.Slice); ok {
			fr.vals[v] = Term{fmt.Sprintf("(sl_cap %s)", a.S), SInt}
		} else {
			r := vc.freshConst(fr.prefix+".cap", SInt)
			vc.fact(fmt.Sprintf("(>= %s 0)", r.S))
			fr.vals[v] = r
		}
	case "append":
		s := arg(0)
		x := arg(1)
		r := vc.freshConst(fr.prefix+"."+v.Name(), SV)
		if isByteSlice(v.Type()) {
			var xb Term
			if isStringType(c.Args[1].Type()) {
				xb = x
			} else {
				xb = fr.bytesOf(x, st)
			}
			xlen := fmt.Sprintf("(blen %s)", xb.S)
			if !isStringType(c.Args[1].Type()) {
				xlen = fmt.Sprintf("(sl_len %s)", x.S)
			}
			base := fr.alloc(v.Type(), st)
			vc.fact(fmt.Sprintf("(and (= (sl_len %s) (+ (sl_len %s) %s)) (= (sl_off %s) 0) (= (sl_base %s) %s) (>= (sl_cap %s) (sl_len %s)))", r.S, s.S, xlen, r.S, r.S, base.S, r.S, r.S))
			bm := vc.keyBM()
			content := fmt.Sprintf("(scat %s %s)", fr.bytesOf(s, st).S, xb.S)
			vc.set(st, bm, fmt.Sprintf("(store %s %s %s)", vc.cur(st, bm), base.S, content))
		} else {
			vc.fact(eq(r.S, fmt.Sprintf("(sl_append %s %s)", s.S, x.S)))
		}
		fr.vals[v] = r
	case "copy":
		r := vc.freshConst(fr.prefix+".copy", SInt)
		dst := arg(0)
		vc.fact(fmt.Sprintf("(and (>= %s 0) (<= %s (sl_len %s)))", r.S, r.S, dst.S))
		if isByteSlice(c.Args[0].Type()) {
			bm := vc.keyBM()
			// copy(dst, src) moves min(len(dst), len(src)) bytes
			src := arg(1)
			var srcBytes Term
			var srcLen string
			wf := func(sl Term) {
				// a slice lies within its backing array
				vc.fact(fmt.Sprintf("(and (>= (sl_off %s) 0) (>= (sl_len %s) 0) (<= (+ (sl_off %s) (sl_len %s)) (blen (select %s (sl_base %s)))))", sl.S, sl.S, sl.S, sl.S, vc.cur(st, bm), sl.S))
			}
			wf(dst)
			oldBacking := fmt.Sprintf("(select %s (sl_base %s))", vc.cur(st, bm), dst.S)
			if isByteSlice(c.Args[1].Type()) {
				wf(src)
				srcBytes = fr.bytesOf(src, st)
				srcLen = fmt.Sprintf("(sl_len %s)", src.S)
			} else {
				srcBytes = src // copy(dst, "string")
				srcLen = fmt.Sprintf("(blen %s)", src.S)
			}
			n := ite(fmt.Sprintf("(< (sl_len %s) %s)", dst.S, srcLen), fmt.Sprintf("(sl_len %s)", dst.S), srcLen)
			vc.fact(eq(r.S, n))
			nb := vc.freshConst("bytes", SV)
			vc.set(st, bm, fmt.Sprintf("(store %s (sl_base %s) %s)", vc.cur(st, bm), dst.S, nb.S))
			vc.fact(eq(fmt.Sprintf("(blen %s)", nb.S), fmt.Sprintf("(blen %s)", oldBacking)))
			vc.fact(eq(fmt.Sprintf("(bsub %s (sl_off %s) (+ (sl_off %s) %s))", nb.S, dst.S, dst.S, r.S), fmt.Sprintf("(bsub %s 0 %s)", srcBytes.S, r.S)))
		} else {
			vc.warn("%s: copy() into non-byte slice is not modelled", fr.fn)
		}
		if v != nil {
			fr.vals[v] = r
		}
	case "delete":
		m := arg(0)
		k := arg(1)
		mt := c.Args[0].Type().Underlying().(*types.Map)
		dom, _ := vc.keyMap(mt)
		fr.frameWrite(dom, m.S, st)
		vc.set(st, dom, fmt.Sprintf("(store %s %s (store (select %s %s) %s false))", vc.cur(st, dom), m.S, vc.cur(st, dom), m.S, k.S))
	case "close", "print", "println":
	case "panic":
		st.reach = "false"
	case "recover":
		fr.vals[v] = Term{"vnil", SV}
	case "min", "max":
		a := arg(0)
		r := a
		for i := 1; i < len(c.Args); i++ {
			b2 := arg(i)
			if name == "min" {
				r = Term{ite(fmt.Sprintf("(< %s %s)", b2.S, r.S), b2.S, r.S), SInt}
			} else {
				r = Term{ite(fmt.Sprintf("(> %s %s)", b2.S, r.S), b2.S, r.S), SInt}
			}
		}
		fr.vals[v] = r
	case "ssa:wrapnilchk":
		fr.vals[v] = arg(0)
	default:
		vc.warn("%s: builtin %s not modelled", fr.fn, name)
		if v != nil {
			fr.vals[v] = vc.freshConst(fr.prefix+"."+name, sortOf(v.Type()))
		}
	}
}

// ghost channel hooks (filled in by channel specs; default: no effect)
func (fr *frame) ghostSend(ch ssa.Value, x ssa.Value, st *State) {
	fr.chanEvent(ch, x, st)
}

func (fr *frame) ghostSelectSends(x *ssa.Select, st *State) {
	// a select with send arms: each send arm i is taken iff index == i
	for i, s := range x.States {
		if s.Dir == types.SendOnly {
			sub := st.clone()
			sub.reach = and(st.reach, eq(fr.tuples[x][0].S, fmt.Sprint(i)))
			fr.chanEvent(s.Chan, s.Send, sub)
			// effects on ghost counters are merged conditionally
			for k, v := range sub.ver {
				if st.ver[k] != v {
					prev := fr.vc().cur(st, k)
					nv := fr.vc().bump(st, k)
					fr.vc().fact(eq(nv, ite(eq(fr.tuples[x][0].S, fmt.Sprint(i)), v, prev)))
				}
			}
		}
	}
}

// chanEvent: a send on a channel held in a struct field may be tied to a
// ghost counter by a "chansend" spec: the counter is incremented.
func (fr *frame) chanEvent(ch ssa.Value, x ssa.Value, st *State) {
	if g := fr.enc.db.Ghosts["chsent"]; g != nil && g.Key != nil {
		key := fr.vc().keyGhostChan(g, ch.Type())
		c := fr.val(ch)
		fr.frameGhostAt(key, c.S, st, "")
		fr.vc().set(st, key, fmt.Sprintf("(store %s %s (+ (select %s %s) 1))", fr.vc().cur(st, key), c.S, fr.vc().cur(st, key), c.S))
	}
	// resolved lazily by field name: see specs "ghost sent_<Type>_<field>"
	load, ok := ch.(*ssa.UnOp)
	if !ok {
		return
	}
	fa, ok := load.X.(*ssa.FieldAddr)
	if !ok {
		return
	}
	tn := deref(fa.X.Type())
	named, ok := tn.(*types.Named)
	if !ok {
		return
	}
	gname := "sent_" + named.Obj().Name() + "_" + fieldName(fa)
	g := fr.enc.db.Ghosts[gname]
	if g == nil || g.Key != nil || g.Val != SInt {
		return
	}
	key := fr.vc().keyGhost(g)
	fr.vc().set(st, key, fmt.Sprintf("(+ %s 1)", fr.vc().cur(st, key)))
}

// unframedGhost: bookkeeping ghosts that are not part of any function's frame
// (mutex typestate, channel send counters).
var unframedGhost = map[string]bool{"G:locked": true, "G:lockcount": true, "G:guard_path": true, "G:guard_id": true}

// ghostKeyMatch: a modifies item "ghost chsent" / "ghost chrecvd" covers the
// per-element-type variants of the channel counters.
func ghostKeyMatch(declared, key string) bool {
	if declared == key {
		return true
	}
	return (declared == "G:chsent" || declared == "G:chrecvd") && strings.HasPrefix(key, declared+"#")
}

func (fr *frame) frameGhostWhole(key string, st *State) {
	e := fr.enc
	if !e.frameCheck || unframedGhost[key] {
		return
	}
	for _, d := range e.declMods {
		if (ghostKeyMatch(d.key, key) || (d.key == "*" && !e.isBookKey(key))) && d.idx == "" && d.pred == nil {
			return
		}
	}
	fr.oblige("frame", "", fr.nextAnchor("ghost"), st, "false", "ghost state "+key+" is modified but not listed in modifies", nil)
}

func (fr *frame) frameGhostAt(key, idx string, st *State, cond string) {
	e := fr.enc
	if !e.frameCheck || unframedGhost[key] {
		return
	}
	var alts []string
	// state attached to an object allocated during this call is not part of the frame
	if k := fr.vc().kinds[key]; k != nil && k.Idx == SInt {
		alts = append(alts, fmt.Sprintf("(>= (rootref %s) hw!0)", idx), fmt.Sprintf("(= %s 0)", idx))
	} else {
		alts = append(alts, fmt.Sprintf("(>= (vref %s) hw!0)", idx), fmt.Sprintf("(= (vref %s) 0)", idx))
	}
	for _, d := range e.declMods {
		if !ghostKeyMatch(d.key, key) && (d.key != "*" || e.isBookKey(key)) {
			continue
		}
		if d.pred != nil {
			alts = append(alts, d.pred(idx))
			continue
		}
		if d.idx == "" {
			return
		}
		alts = append(alts, eq(idx, d.idx))
	}
	goal := or(alts...)
	if cond != "" {
		goal = implies(cond, goal)
	}
	if k := fr.vc().kinds[key]; k != nil && k.Idx == SV {
		// path-keyed state (the ghost file system): what counts is the net effect,
		// so a key outside the frame may be written if every return finds it restored
		// (e.g. a temp file created and removed again).  Checked at the end.
		anchor := fr.anchorPrefix() + fr.nextAnchor("ghost")
		reach := st.reach
		pos := ""
		if fr.curBlock != nil && fr.curIdx < len(fr.curBlock.Instrs) {
			pos = e.prog.Fset.Position(instrPos(fr.curBlock.Instrs[fr.curIdx])).String()
		}
		run := func() {
			e.restoreChecks = append(e.restoreChecks, restoreCheck{key: key, idx: idx, reach: reach, listed: goal, anchor: anchor, pos: pos})
		}
		if fr.deferFrame {
			fr.pendingFrame = append(fr.pendingFrame, run)
			return
		}
		run()
		return
	}
	run := func() {
		fr.oblige("frame", "", fr.nextAnchor("ghost"), st, goal, "ghost state "+key+" is modified at a key not listed in modifies", nil)
	}
	if fr.deferFrame {
		fr.pendingFrame = append(fr.pendingFrame, run)
		return
	}
	run()
}

// callAnchor numbers the call sites of one callee in source order (not in the
// order the encoder happens to visit blocks), so anchors are stable.
func (fr *frame) callAnchor(name string, site ssa.Instruction) string {
	if fr.callSites == nil {
		fr.callSites = map[string][]ssa.Instruction{}
		for _, b := range fr.fn.Blocks {
			for _, ins := range b.Instrs {
				var cc *ssa.CallCommon
				switch x := ins.(type) {
				case *ssa.Call:
					cc = x.Common()
				case *ssa.Defer:
					cc = x.Common()
				case *ssa.Go:
					cc = x.Common()
				}
				if cc == nil {
					continue
				}
				if b, isB := cc.Value.(*ssa.Builtin); isB {
					if b.Name() == "close" {
						fr.callSites["close"] = append(fr.callSites["close"], ins)
					}
					continue
				}
				n := fr.anchorNameOf(cc)
				fr.callSites[n] = append(fr.callSites[n], ins)
			}
		}
		for n := range fr.callSites {
			l := fr.callSites[n]
			sort.SliceStable(l, func(i, j int) bool { return l[i].Pos() < l[j].Pos() })
		}
	}
	for i, s := range fr.callSites[name] {
		if s == site {
			return fmt.Sprintf("%s:%d", name, i+1)
		}
	}
	return fr.nextAnchor(name)
}

// anchorNameOf mirrors the callee resolution of call().
func (fr *frame) anchorNameOf(c *ssa.CallCommon) string {
	e := fr.enc
	var callee *ssa.Function
	key := ""
	if c.IsInvoke() {
		key = c.Method.FullName()
		if mi, ok := c.Value.(*ssa.MakeInterface); ok {
			if f := e.prog.LookupMethod(mi.X.Type(), c.Method.Pkg(), c.Method.Name()); f != nil {
				if _, has := e.db.ByKey[key]; !has {
					callee = f
					key = f.String()
				}
			}
		}
	} else if f := c.StaticCallee(); f != nil {
		callee = f
		key = f.String()
	} else if mc := fr.closureOf(c.Value); mc != nil {
		callee = mc.Fn.(*ssa.Function)
		key = callee.String()
	}
	if callee != nil && callee.Origin() != nil {
		if _, ok := e.db.ByKey[key]; !ok {
			key = callee.Origin().String()
		}
	}
	if callee == nil && !c.IsInvoke() {
		k := "functype:" + types.TypeString(c.Value.Type(), nil)
		if _, ok := e.db.ByKey[k]; ok {
			key = k
		}
	}
	return anchorName(key, c)
}

// regionPred translates the predicate of "ghost g[q | pred]" into a function
// from a key term to an SMT formula.
func (c *specCtx) regionPred(m ModSpec, keySort Sort) (func(string) string, error) {
	n := *c
	n.bound = map[string]Term{}
	for k, v := range c.bound {
		n.bound[k] = v
	}
	bn := "q!" + m.Var
	n.bound[m.Var] = Term{bn, keySort}
	body, err := n.trBool(m.Expr)
	if err != nil {
		return nil, err
	}
	return func(idx string) string {
		return fmt.Sprintf("(let ((%s %s)) %s)", bn, idx, body)
	}, nil
}

// frameGhostRegion: a callee that may touch every key of a region is inside the
// caller's frame only if the whole region is.
func (fr *frame) frameGhostRegion(key string, pred func(string) string, keySort Sort, st *State) {
	e := fr.enc
	if !e.frameCheck || unframedGhost[key] {
		return
	}
	var alts []string
	for _, d := range e.declMods {
		if d.key != key && d.key != "*" {
			continue
		}
		if d.pred != nil {
			alts = append(alts, d.pred("q!f"))
			continue
		}
		if d.idx == "" {
			return
		}
		alts = append(alts, eq("q!f", d.idx))
	}
	goal := fmt.Sprintf("(forall ((q!f %s)) (=> %s %s))", keySort, pred("q!f"), or(alts...))
	run := func() {
		fr.oblige("frame", "", fr.nextAnchor("ghost"), st, goal, "ghost state "+key+" may be modified in a region not covered by modifies", nil)
	}
	if fr.deferFrame {
		fr.pendingFrame = append(fr.pendingFrame, run)
		return
	}
	run()
}

// invokeArg runs the function-valued argument named by an "invokes" clause on
// a branch guarded by the clause's condition (evaluated in the pre-state) and
// merges the result back.
func (fr *frame) invokeArg(inv Invoke, ct *Contract, pnames []string, post *specCtx, pre *State, st *State) {
	vc := fr.vc()
	c, site := fr.curCall, fr.curSite
	if c == nil {
		vc.warn("invokes %s: no call context", inv.Text)
		fr.havocEverything(st, false, "invokes "+inv.Text)
		return
	}
	idx := -1
	for i, n := range pnames {
		if n == inv.Param {
			idx = i
		}
	}
	off := 0
	if c.IsInvoke() {
		off = 1
	}
	if idx-off < 0 || idx-off >= len(c.Args) {
		vc.warn("invokes %s: no such parameter of %s", inv.Param, ct.Key)
		fr.havocEverything(st, false, "invokes "+inv.Text)
		return
	}
	fval := c.Args[idx-off]
	cond := "true"
	if inv.Cond != nil {
		pc := *post
		pc.st = pre
		pc.old = pre
		g, err := pc.trBool(inv.Cond)
		if err != nil {
			vc.warn("invokes %s: %v", inv.Text, err)
			fr.havocEverything(st, false, "invokes "+inv.Text)
			return
		}
		cond = g
	}
	saveCall, saveSite := fr.curCall, fr.curSite
	yes := st.clone()
	ry := vc.freshConst("reach!"+fr.prefix+".invoke", SBool)
	vc.fact(eq(ry.S, and(st.reach, cond)))
	yes.reach = ry.S
	cc := &ssa.CallCommon{Value: fval}
	fr.call(nil, cc, yes, site)
	no := st.clone()
	rn := vc.freshConst("reach!"+fr.prefix+".noinvoke", SBool)
	vc.fact(eq(rn.S, and(st.reach, not(cond))))
	no.reach = rn.S
	m := vc.mergeStates([]edgeIn{{cond: yes.reach, st: yes}, {cond: no.reach, st: no}}, fr.prefix+".invokejoin")
	*st = *m
	fr.curCall, fr.curSite = saveCall, saveSite
}

// spawnMonitors: "go f(args)" records the monitors of f's contract that do
// not depend on results (the call has been started).
func (fr *frame) spawnMonitors(c *ssa.CallCommon, st *State) {
	e := fr.enc
	vc := fr.vc()
	callee := c.StaticCallee()
	if callee == nil {
		// go func() { ... }(): the closure's own contract
		if mc := fr.closureOf(c.Value); mc != nil {
			callee, _ = mc.Fn.(*ssa.Function)
		}
	}
	if callee == nil {
		return
	}
	ct := e.db.ByKey[callee.String()]
	if ct == nil || len(ct.Monitors) == 0 {
		return
	}
	ctx := &specCtx{fr: fr, st: st, old: st, params: map[string]Term{}, ptypes: map[string]types.Type{}, bound: map[string]Term{}}
	if callee.Pkg != nil {
		ctx.pkg = callee.Pkg.Pkg
	}
	for i, p := range callee.Params {
		if i < len(c.Args) {
			ctx.params[p.Name()] = fr.coerce(fr.val(c.Args[i]), sortOf(c.Args[i].Type()))
			ctx.ptypes[p.Name()] = c.Args[i].Type()
		}
	}
	for _, mon := range ct.Monitors {
		g := e.db.Ghosts[mon.Ghost]
		if g == nil || g.Key == nil {
			continue
		}
		k, err1 := ctx.tr(mon.Key)
		v, err2 := ctx.tr(mon.Val)
		if err1 != nil || err2 != nil {
			continue // depends on results: not known at the spawn
		}
		key := vc.keyGhost(g)
		vc.set(st, key, fmt.Sprintf("(store %s %s %s)", vc.cur(st, key), k.S, v.S))
	}
}

// ghostRecv counts the values received from a channel (chrecvd), when the
// receive delivered one (cond).
func (fr *frame) ghostRecv(ch ssa.Value, cond string, st *State) {
	g := fr.enc.db.Ghosts["chrecvd"]
	if g == nil || g.Key == nil {
		return
	}
	vc := fr.vc()
	key := vc.keyGhostChan(g, ch.Type())
	c := fr.val(ch)
	fr.frameGhostAt(key, c.S, st, cond)
	cur := vc.cur(st, key)
	vc.set(st, key, ite(cond, fmt.Sprintf("(store %s %s (+ (select %s %s) 1))", cur, c.S, cur, c.S), cur))
}
