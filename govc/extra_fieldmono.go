package main

import (
	"fmt"
	"go/constant"
	"go/types"
	"sort"
	"strings"

	"golang.org/x/tools/go/ssa"
)

// fieldMono: a latch field ("this has been done") may only ever be set to true.
// Per-function contracts cannot see a method that is *added* to a type, so this
// is decided over every function of the package: each store to the field is the
// constant true (or initialises a struct allocated in that very function).
var fieldMonoSpecs = map[string][]struct{ pkg, typ, field, why string }{
	"C06": {{"github.com/git-lfs/git-lfs/v3/tq", "startCallbackReader", "cbDone",
		"the start callback of an upload body (it releases the next worker: sync.WaitGroup.Done) runs once per body, however often the body is rewound and read again"}},
}

func fieldMonoCheck(id string) func(w *World, cfg *solveCfg) []*Obligation {
	return func(w *World, cfg *solveCfg) []*Obligation {
		var obls []*Obligation
		for _, sp := range fieldMonoSpecs[id] {
			ob := &Obligation{Name: fmt.Sprintf("%s.%s#static@field-%s-only-set-true", sp.pkg[strings.LastIndex(sp.pkg, "/")+1:], sp.typ, sp.field),
				Kind: "const", Expect: "unsat", Solver: "go/ssa store scan", Desc: sp.why}
			obls = append(obls, ob)
			var bad []string
			found := false
			for fn := range ssaAllFunctions(w.prog) {
				if fn.Pkg == nil || fn.Pkg.Pkg.Path() != sp.pkg {
					continue
				}
				for _, b := range fn.Blocks {
					for _, ins := range b.Instrs {
						st, ok := ins.(*ssa.Store)
						if !ok {
							continue
						}
						fa, ok := st.Addr.(*ssa.FieldAddr)
						if !ok {
							continue
						}
						pt, ok := fa.X.Type().Underlying().(*types.Pointer)
						if !ok {
							continue
						}
						nt, ok := pt.Elem().(*types.Named)
						if !ok || nt.Obj().Name() != sp.typ {
							continue
						}
						su := nt.Underlying().(*types.Struct)
						if su.Field(fa.Field).Name() != sp.field {
							continue
						}
						found = true
						if c, ok := st.Val.(*ssa.Const); ok && c.Value != nil && c.Value.Kind() == constant.Bool && constant.BoolVal(c.Value) {
							continue
						}
						if _, fresh := fa.X.(*ssa.Alloc); fresh {
							continue // initialising a struct allocated here
						}
						bad = append(bad, fmt.Sprintf("%s: %s", fn.String(), w.prog.Fset.Position(st.Pos())))
					}
				}
			}
			sort.Strings(bad)
			switch {
			case !found:
				ob.Status = "fail"
				ob.Model = "no store to the field was found (renamed?): nothing to decide"
			case len(bad) > 0:
				ob.Status = "fail"
				ob.Model = "stores of something other than the constant true:\n" + strings.Join(bad, "\n")
			default:
				ob.Status = "ok"
			}
		}
		return obls
	}
}

func ssaAllFunctions(prog *ssa.Program) map[*ssa.Function]bool {
	seen := map[*ssa.Function]bool{}
	var visit func(f *ssa.Function)
	visit = func(f *ssa.Function) {
		if f == nil || seen[f] {
			return
		}
		seen[f] = true
		for _, a := range f.AnonFuncs {
			visit(a)
		}
	}
	for _, pkg := range prog.AllPackages() {
		for _, m := range pkg.Members {
			switch x := m.(type) {
			case *ssa.Function:
				visit(x)
			case *ssa.Type:
				for _, t := range []types.Type{x.Type(), types.NewPointer(x.Type())} {
					ms := prog.MethodSets.MethodSet(t)
					for i := 0; i < ms.Len(); i++ {
						visit(prog.MethodValue(ms.At(i)))
					}
				}
			}
		}
	}
	return seen
}

func init() {
	extraChecks["fieldmono-C06"] = fieldMonoCheck("C06")
}
