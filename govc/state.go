package main

import (
	"fmt"
	"go/types"
	"sort"
	"strings"
)

// State is the symbolic program state at a point: a reach condition plus the
// current version (an SMT constant) of every heap array / ghost map.
type State struct {
	reach         string
	base          string
	ver           map[string]string
	hw            string // allocation high-water mark (Int term)
	pendingBaseHW bool
	defers        []*deferRec
}

type deferRec struct {
	site  int
	flag  string // Bool term: whether this defer was executed
	instr interface{}
	fr    *frame
}

func (st *State) clone() *State {
	n := &State{reach: st.reach, base: st.base, hw: st.hw, ver: make(map[string]string, len(st.ver))}
	for k, v := range st.ver {
		n.ver[k] = v
	}
	n.defers = append([]*deferRec{}, st.defers...)
	return n
}

func typeKey(t types.Type) string {
	return types.TypeString(t, nil)
}

// registration of state components ------------------------------------------------

func (vc *VC) regKind(k *ArrKind) *ArrKind {
	if old, ok := vc.kinds[k.Key]; ok {
		return old
	}
	vc.kinds[k.Key] = k
	return k
}

func (vc *VC) keyField(structT types.Type, field string, valSort Sort) string {
	key := "F:" + typeKey(structT) + "." + field
	vc.regKind(&ArrKind{Key: key, Sort: fmt.Sprintf("(Array Int %s)", valSort), Idx: SInt, Val: valSort})
	return key
}

func (vc *VC) keyCell(elem types.Type) string {
	key := "P:" + typeKey(elem)
	s := sortOf(elem)
	vc.regKind(&ArrKind{Key: key, Sort: fmt.Sprintf("(Array Int %s)", s), Idx: SInt, Val: s})
	return key
}

func (vc *VC) keyMap(mt *types.Map) (dom, val string) {
	k := sortOf(mt.Key())
	v := sortOf(mt.Elem())
	ts := typeKey(mt)
	dom = "MD:" + ts
	val = "MV:" + ts
	vc.regKind(&ArrKind{Key: dom, Sort: fmt.Sprintf("(Array Int (Array %s Bool))", k), Idx: SInt, Nest: true, Kidx: k, Val: SBool})
	vc.regKind(&ArrKind{Key: val, Sort: fmt.Sprintf("(Array Int (Array %s %s))", k, v), Idx: SInt, Nest: true, Kidx: k, Val: v})
	return
}

func (vc *VC) keyGhost(g *GhostDecl) string {
	key := "G:" + g.Name
	if g.Key == nil {
		vc.regKind(&ArrKind{Key: key, Sort: g.Val.String(), Flat: true, Val: g.Val})
	} else {
		vc.regKind(&ArrKind{Key: key, Sort: fmt.Sprintf("(Array %s %s)", *g.Key, g.Val), Idx: *g.Key, Val: g.Val})
	}
	return key
}

// keyGhostChan: the send counter is kept per channel element type (channels of
// different types cannot alias).
func (vc *VC) keyGhostChan(g *GhostDecl, chanType types.Type) string {
	suffix := ""
	if ct, ok := chanType.Underlying().(*types.Chan); ok {
		suffix = "#" + typeKey(ct.Elem())
	}
	key := "G:" + g.Name + suffix
	vc.regKind(&ArrKind{Key: key, Sort: fmt.Sprintf("(Array %s %s)", *g.Key, g.Val), Idx: *g.Key, Val: g.Val})
	return key
}

func (vc *VC) keyBM() string {
	vc.regKind(&ArrKind{Key: "BM", Sort: "(Array Int V)", Idx: SInt, Val: SV})
	return "BM"
}

// cur returns the current version of key in st.
func (vc *VC) cur(st *State, key string) string {
	if v, ok := st.ver[key]; ok {
		return v
	}
	k := vc.kinds[key]
	if k == nil {
		panic("unregistered state key " + key)
	}
	name := key + "@" + st.base
	vc.declConst(name, k.Sort)
	if _, ok := vc.verHW[sym(name)]; !ok {
		if b, ok := vc.baseHW[st.base]; ok {
			vc.verHW[sym(name)] = b
		}
	}
	return sym(name)
}

// bump gives key a fresh unconstrained version in st and returns it.
func (vc *VC) bump(st *State, key string) string {
	k := vc.kinds[key]
	if k == nil {
		panic("unregistered state key " + key)
	}
	name := vc.fresh(key)
	vc.declConst(name, k.Sort)
	st.ver[key] = sym(name)
	if st.hw != "" {
		vc.verHW[sym(name)] = st.hw
	}
	return sym(name)
}

// set defines the new version of key as term (guarded by nothing: a definition).
func (vc *VC) set(st *State, key string, term string) {
	n := vc.bump(st, key)
	vc.fact(eq(n, term))
}

func (vc *VC) allKeys() []string {
	var ks []string
	for k := range vc.kinds {
		ks = append(ks, k)
	}
	sort.Strings(ks)
	return ks
}

// mergeStates joins several (edgeCond, state) pairs into one state.
func (vc *VC) mergeStates(ins []edgeIn, label string) *State {
	if len(ins) == 1 {
		st := ins[0].st.clone()
		st.reach = ins[0].cond
		return st
	}
	out := &State{ver: map[string]string{}}
	var conds []string
	for _, e := range ins {
		conds = append(conds, e.cond)
	}
	r := vc.freshConst("reach!"+label, SBool)
	vc.fact(eq(r.S, or(conds...)))
	out.reach = r.S
	// base
	same := true
	for _, e := range ins[1:] {
		if e.st.base != ins[0].st.base {
			same = false
		}
	}
	keys := map[string]bool{}
	if same {
		out.base = ins[0].st.base
		for _, e := range ins {
			for k := range e.st.ver {
				keys[k] = true
			}
		}
	} else {
		out.base = vc.fresh("b")
		for k := range vc.kinds {
			keys[k] = true
		}
		out.pendingBaseHW = true
	}
	for _, k := range sortedKeys(keys) {
		v0 := vc.cur(ins[0].st, k)
		diff := false
		for _, e := range ins[1:] {
			if vc.cur(e.st, k) != v0 {
				diff = true
			}
		}
		if !diff {
			out.ver[k] = v0
			continue
		}
		n := vc.bump(out, k)
		for _, e := range ins {
			vc.fact(implies(e.cond, eq(n, vc.cur(e.st, k))))
		}
	}
	// hw
	hw0 := ins[0].st.hw
	diff := false
	for _, e := range ins[1:] {
		if e.st.hw != hw0 {
			diff = true
		}
	}
	if !diff {
		out.hw = hw0
	} else {
		h := vc.freshConst("hw", SInt)
		for _, e := range ins {
			vc.fact(implies(e.cond, eq(h.S, e.st.hw)))
		}
		out.hw = h.S
	}
	if out.pendingBaseHW {
		vc.baseHW[out.base] = out.hw
	}
	// defers: union by site, flag merged
	sites := map[int]*deferRec{}
	var order []int
	for _, e := range ins {
		for _, d := range e.st.defers {
			if _, ok := sites[d.site]; !ok {
				sites[d.site] = d
				order = append(order, d.site)
			}
		}
	}
	sort.Ints(order)
	for _, s := range order {
		var parts []string
		allTrue := true
		for _, e := range ins {
			f := "false"
			for _, d := range e.st.defers {
				if d.site == s {
					f = d.flag
				}
			}
			if f != "true" {
				allTrue = false
			}
			parts = append(parts, and(e.cond, f))
		}
		d := *sites[s]
		if allTrue {
			d.flag = "true"
		} else {
			fl := vc.freshConst("dflag", SBool)
			// flag is meaningful only under reach
			vc.fact(implies(out.reach, eq(fl.S, or(parts...))))
			d.flag = fl.S
		}
		out.defers = append(out.defers, &d)
	}
	return out
}

type edgeIn struct {
	cond string
	st   *State
	from int
}

// havocAll gives every known state component a fresh version (unknown callee).
func (vc *VC) havocAll(st *State, keepGhost bool) {
	old := st.clone()
	_ = old
	st.base = vc.fresh("b")
	for k := range st.ver {
		if keepGhost && (strings.HasPrefix(k, "G:")) {
			continue
		}
		delete(st.ver, k)
	}
	if keepGhost {
		for k, kk := range vc.kinds {
			if strings.HasPrefix(k, "G:") {
				if _, ok := st.ver[k]; !ok {
					// pin to old default version
					name := k + "@" + old.base
					vc.declConst(name, kk.Sort)
					st.ver[k] = sym(name)
				}
			}
		}
	}
	h := vc.freshConst("hw", SInt)
	vc.fact(fmt.Sprintf("(>= %s %s)", h.S, st.hw))
	st.hw = h.S
	vc.baseHW[st.base] = h.S
}
