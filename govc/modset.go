package main

import (
	"go/ast"
	"go/token"
	"go/types"
	"strconv"

	"golang.org/x/tools/go/ssa"
)

type privMod struct {
	alloc *ssa.Alloc
}

type modSet struct {
	bookWhy string
	book    bool // "all" includes bookkeeping ghosts (unknown code may run contract-bearing functions)
	all     bool
	heapAll bool
	keys    map[string]bool
	priv    map[*ssa.Alloc]bool
	why     string
}

func newModSet() *modSet { return &modSet{keys: map[string]bool{}, priv: map[*ssa.Alloc]bool{}} }

func (m *modSet) union(o *modSet) {
	if o.book {
		m.book = true
		if m.bookWhy == "" {
			m.bookWhy = o.bookWhy
		}
	}
	if o.all {
		m.all = true
		if m.why == "" {
			m.why = o.why
		}
	}
	if o.heapAll {
		m.heapAll = true
		if m.why == "" {
			m.why = o.why
		}
	}
	for k := range o.keys {
		m.keys[k] = true
	}
}

type modsetCache struct {
	e      *encoder
	memo   map[*ssa.Function]*modSet
	active map[*ssa.Function]bool
}

func (c *modsetCache) funcMods(fn *ssa.Function) *modSet {
	if m, ok := c.memo[fn]; ok {
		return m
	}
	if c.active[fn] {
		m := newModSet()
		m.all = true
		m.book = true
		m.why = "recursion through " + fn.String()
		m.bookWhy = m.why
		return m
	}
	c.active[fn] = true
	m := newModSet()
	for _, b := range fn.Blocks {
		for _, ins := range b.Instrs {
			c.instrMods(nil, fn, ins, m)
		}
	}
	delete(c.active, fn)
	c.memo[fn] = m
	return m
}

func (c *modsetCache) loopMods(fr *frame, li *loopInfo) *modSet {
	m := newModSet()
	for b := range li.blocks {
		for _, ins := range b.Instrs {
			c.instrMods(fr, fr.fn, ins, m)
		}
	}
	return m
}

// keysOfType lists the state keys an object of type t occupies.
func (c *modsetCache) keysOfType(t types.Type, out map[string]bool) {
	vc := c.e.vc
	if su, ok := t.Underlying().(*types.Struct); ok && isStruct(t) {
		for i := 0; i < su.NumFields(); i++ {
			f := su.Field(i)
			if isStruct(f.Type()) {
				c.keysOfType(f.Type(), out)
			} else {
				out[vc.keyField(t, f.Name(), sortOf(f.Type()))] = true
			}
		}
		return
	}
	out[vc.keyCell(t)] = true
}

// addrKeys: which keys a store through addr may touch; private alloc if the
// address is rooted at a private Alloc of frame fr.
func (c *modsetCache) addrKeys(fr *frame, addr ssa.Value, m *modSet) {
	vc := c.e.vc
	root := addr
	for {
		switch x := root.(type) {
		case *ssa.FieldAddr:
			root = x.X
			continue
		case *ssa.IndexAddr:
			root = x.X
			continue
		}
		break
	}
	if a, ok := root.(*ssa.Alloc); ok && fr != nil && fr.private[a] {
		m.priv[a] = true
		return
	}
	switch x := addr.(type) {
	case *ssa.FieldAddr:
		st := deref(x.X.Type())
		f := st.Underlying().(*types.Struct).Field(x.Field)
		if isStruct(f.Type()) {
			c.keysOfType(f.Type(), m.keys)
		} else {
			m.keys[vc.keyField(st, f.Name(), sortOf(f.Type()))] = true
		}
	case *ssa.IndexAddr:
		switch xt := x.X.Type().Underlying().(type) {
		case *types.Pointer:
			c.addrKeys(fr, x.X, m)
		case *types.Slice:
			if isByte(xt.Elem()) {
				m.keys[vc.keyBM()] = true
			}
		}
	default:
		c.keysOfType(deref(addr.Type()), m.keys)
	}
}

func (c *modsetCache) instrMods(fr *frame, fn *ssa.Function, ins ssa.Instruction, m *modSet) {
	vc := c.e.vc
	e := c.e
	switch x := ins.(type) {
	case *ssa.Store:
		c.addrKeys(fr, x.Addr, m)
	case *ssa.Alloc:
		if fr != nil && fr.private[x] {
			m.priv[x] = true
		} else {
			c.keysOfType(deref(x.Type()), m.keys)
		}
	case *ssa.MapUpdate:
		mt := x.Map.Type().Underlying().(*types.Map)
		d, v := vc.keyMap(mt)
		m.keys[d] = true
		m.keys[v] = true
	case *ssa.MakeMap:
		mt := x.Type().Underlying().(*types.Map)
		d, _ := vc.keyMap(mt)
		m.keys[d] = true
	case *ssa.MakeSlice:
		if isByteSlice(x.Type()) {
			m.keys[vc.keyBM()] = true
		}
	case *ssa.Convert:
		if isByteSlice(x.Type()) {
			m.keys[vc.keyBM()] = true
		}
	case *ssa.Go:
		m.heapAll = true
		m.why = "go statement in " + fn.String()
	case *ssa.Send:
		c.chanMods(x.Chan, m)
	case *ssa.Select:
		for _, s := range x.States {
			if s.Dir == types.SendOnly {
				c.chanMods(s.Chan, m)
			} else if g := c.e.db.Ghosts["chrecvd"]; g != nil && g.Key != nil {
				m.keys[c.e.vc.keyGhostChan(g, s.Chan.Type())] = true
			}
		}
	case *ssa.Defer:
		c.callMods(fr, fn, x.Common(), m)
	case *ssa.Call:
		c.callMods(fr, fn, x.Common(), m)
	case *ssa.UnOp:
		if x.Op == token.ARROW {
			if g := c.e.db.Ghosts["chrecvd"]; g != nil && g.Key != nil {
				m.keys[c.e.vc.keyGhostChan(g, x.X.Type())] = true
			}
		}
	}
	_ = e
}

func (c *modsetCache) chanMods(ch ssa.Value, m *modSet) {
	if g := c.e.db.Ghosts["chsent"]; g != nil && g.Key != nil {
		m.keys[c.e.vc.keyGhostChan(g, ch.Type())] = true
	}
	load, ok := ch.(*ssa.UnOp)
	if !ok {
		return
	}
	fa, ok := load.X.(*ssa.FieldAddr)
	if !ok {
		return
	}
	named, ok := deref(fa.X.Type()).(*types.Named)
	if !ok {
		return
	}
	gname := "sent_" + named.Obj().Name() + "_" + fieldName(fa)
	if g := c.e.db.Ghosts[gname]; g != nil {
		m.keys[c.e.vc.keyGhost(g)] = true
	}
}

func (c *modsetCache) callMods(fr *frame, fn *ssa.Function, cc *ssa.CallCommon, m *modSet) {
	e := c.e
	vc := e.vc
	if b, ok := cc.Value.(*ssa.Builtin); ok {
		switch b.Name() {
		case "append", "copy":
			if len(cc.Args) > 0 && isByteSlice(cc.Args[0].Type()) {
				m.keys[vc.keyBM()] = true
			}
		case "delete":
			mt := cc.Args[0].Type().Underlying().(*types.Map)
			d, _ := vc.keyMap(mt)
			m.keys[d] = true
		}
		return
	}
	var callee *ssa.Function
	key := ""
	if cc.IsInvoke() {
		key = cc.Method.FullName()
		if mi, ok := cc.Value.(*ssa.MakeInterface); ok {
			if f := e.prog.LookupMethod(mi.X.Type(), cc.Method.Pkg(), cc.Method.Name()); f != nil {
				if _, has := e.db.ByKey[key]; !has {
					callee = f
					key = f.String()
				}
			}
		}
	} else if f := cc.StaticCallee(); f != nil {
		callee = f
		key = f.String()
	} else if mc, ok := cc.Value.(*ssa.MakeClosure); ok {
		callee = mc.Fn.(*ssa.Function)
		key = callee.String()
	}
	if callee != nil && callee.Origin() != nil {
		if _, ok := e.db.ByKey[key]; !ok {
			key = callee.Origin().String()
		}
	}
	if callee == nil && !cc.IsInvoke() {
		k := "functype:" + types.TypeString(cc.Value.Type(), nil)
		if _, ok := e.db.ByKey[k]; ok {
			key = k
		}
	}
	if ct := e.db.ByKey[key]; ct != nil && !ct.Inline {
		if ct.HasMods || ct.Trusted {
			var sig *types.Signature
			var pnames []string
			if callee != nil {
				sig = callee.Signature
				for _, p := range callee.Params {
					pnames = append(pnames, p.Name())
				}
			} else {
				sig = cc.Signature()
				pnames = append(pnames, "recv")
				for i := 0; i < sig.Params().Len(); i++ {
					pnames = append(pnames, sig.Params().At(i).Name())
				}
			}
			if len(ct.Params) > 0 {
				pnames = ct.Params
			}
			ptypes := map[string]types.Type{}
			idx := 0
			if cc.IsInvoke() {
				ptypes[pnames[0]] = cc.Value.Type()
				ptypes["a0"] = cc.Value.Type()
				idx = 1
			}
			for i, a := range cc.Args {
				if idx+i < len(pnames) {
					ptypes[pnames[idx+i]] = a.Type()
				}
				ptypes["a"+itoa(idx+i)] = a.Type()
			}
			if callee != nil {
				for _, fv := range callee.FreeVars {
					ptypes["captured:"+fv.Name()] = fv.Type()
					if _, dup := ptypes[fv.Name()]; !dup {
						ptypes[fv.Name()] = deref(fv.Type())
					}
				}
			}
			for _, ms := range ct.Mods {
				c.modSpecKeys(ms, ptypes, m)
			}
			for _, mon := range ct.Monitors {
				if g := e.db.Ghosts[mon.Ghost]; g != nil {
					m.keys[vc.keyGhost(g)] = true
				}
			}
			for _, inv := range ct.Invokes {
				// the callee runs one of its function arguments
				done := false
				for i, a := range cc.Args {
					if idx+i < len(pnames) && pnames[idx+i] == inv.Param {
						if mc, ok := a.(*ssa.MakeClosure); ok {
							m.union(c.funcMods(mc.Fn.(*ssa.Function)))
							done = true
						} else if f, ok := a.(*ssa.Function); ok {
							m.union(c.funcMods(f))
							done = true
						}
					}
				}
				if !done {
					m.all = true
					m.book = true
					m.why = "invokes " + inv.Text
					m.bookWhy = m.why
				}
			}
			return
		}
		if callee != nil && len(callee.Blocks) > 0 {
			m.union(c.funcMods(callee))
			return
		}
		m.all = true
		m.book = true
		m.why = key
		m.bookWhy = "contract without frame and without body: " + key
		return
	}
	if e.isPureCallee(cc, callee) || (callee != nil && e.db.NoEffect[key]) {
		return
	}
	if callee != nil && len(callee.Blocks) > 0 && e.inRepo(callee) {
		m.union(c.funcMods(callee))
		return
	}
	m.all = true
	if key == "" {
		key = "dynamic call in " + fn.String()
	}
	if !c.e.cannotCallBack(cc, callee) {
		m.book = true
		if m.bookWhy == "" {
			m.bookWhy = key
		}
	}
	m.why = key
}

// cannotCallBack: a statically known function outside the repository that is
// handed no function or interface value cannot run repository code, hence
// cannot reach any contract that changes a bookkeeping ghost.
func (e *encoder) cannotCallBack(cc *ssa.CallCommon, callee *ssa.Function) bool {
	if callee == nil || cc.IsInvoke() || e.inRepo(callee) {
		return false
	}
	for _, a := range cc.Args {
		switch a.Type().Underlying().(type) {
		case *types.Signature, *types.Interface:
			return false
		case *types.Slice:
			// variadic ...interface{} and similar
			if _, ok := a.Type().Underlying().(*types.Slice).Elem().Underlying().(*types.Interface); ok {
				return false
			}
		}
	}
	return true
}

func itoa(i int) string { return strconv.Itoa(i) }

func staticTypeOf(e ast.Expr, ptypes map[string]types.Type) types.Type {
	switch x := e.(type) {
	case *ast.ParenExpr:
		return staticTypeOf(x.X, ptypes)
	case *ast.Ident:
		return ptypes[x.Name]
	case *ast.SelectorExpr:
		t := staticTypeOf(x.X, ptypes)
		if t == nil {
			return nil
		}
		obj, _, _ := types.LookupFieldOrMethod(t, true, nil, x.Sel.Name)
		if obj == nil {
			// unexported field: need package; try all fields manually
			if su, ok := deref(t).Underlying().(*types.Struct); ok {
				for i := 0; i < su.NumFields(); i++ {
					if su.Field(i).Name() == x.Sel.Name {
						return su.Field(i).Type()
					}
				}
			}
			return nil
		}
		return obj.Type()
	}
	return nil
}

func (c *modsetCache) modSpecKeys(ms ModSpec, ptypes map[string]types.Type, m *modSet) {
	vc := c.e.vc
	switch ms.Kind {
	case "all":
		m.all = true
		m.why = "modifies all"
	case "everything":
		m.all = true
		m.book = true
		m.why = "modifies everything"
		if m.bookWhy == "" {
			m.bookWhy = m.why
		}
	case "heap":
		m.heapAll = true
		m.why = "modifies heap"
	case "ghost", "ghostat", "ghostwhere":
		if g := c.e.db.Ghosts[ms.Name]; g != nil {
			m.keys[vc.keyGhost(g)] = true
		}
	case "bytes":
		m.keys[vc.keyBM()] = true
	case "key":
		if vc.kinds[ms.Name] != nil {
			m.keys[ms.Name] = true
		}
	case "field":
		t := staticTypeOf(ms.Expr, ptypes)
		if t == nil {
			m.heapAll = true
			m.why = "untyped modifies " + ms.Text
			return
		}
		st := deref(t)
		su, ok := st.Underlying().(*types.Struct)
		if !ok {
			m.heapAll = true
			return
		}
		for i := 0; i < su.NumFields(); i++ {
			f := su.Field(i)
			if f.Name() == ms.Fld {
				if isStruct(f.Type()) {
					c.keysOfType(f.Type(), m.keys)
				} else {
					m.keys[vc.keyField(st, f.Name(), sortOf(f.Type()))] = true
				}
			}
		}
	case "fields", "cell":
		t := staticTypeOf(ms.Expr, ptypes)
		if t == nil {
			m.heapAll = true
			m.why = "untyped modifies " + ms.Text
			return
		}
		c.keysOfType(deref(t), m.keys)
	case "captured":
		if t := ptypes["captured:"+ms.Name]; t != nil {
			c.keysOfType(deref(t), m.keys)
		} else {
			m.heapAll = true
			m.why = "captured variable " + ms.Name
		}
	case "map", "mapkey":
		t := staticTypeOf(ms.Expr, ptypes)
		if t == nil {
			m.heapAll = true
			m.why = "untyped modifies " + ms.Text
			return
		}
		if mt, ok := t.Underlying().(*types.Map); ok {
			d, v := vc.keyMap(mt)
			m.keys[d] = true
			m.keys[v] = true
		}
	}
}

// applyMods havocs the state components in ms.
func (fr *frame) applyMods(st *State, ms *modSet, why string) {
	vc := fr.vc()
	if ms.all && !ms.book {
		fr.havocEverythingBut(st, ms.why+" ("+why+")")
		// bookkeeping ghosts survive that, except those the callee is known to change
		var gk []string
		for k := range ms.keys {
			if fr.enc.isBookKey(k) {
				gk = append(gk, k)
			}
		}
		gk = sortedKeys(toSet(gk))
		for _, k := range gk {
			fr.frameGhostWhole(k, st)
		}
		fr.havocKeys(st, gk)
	} else if ms.all {
		fr.havocEverything(st, false, ms.why+" ("+why+")")
	} else if ms.heapAll {
		fr.havocEverything(st, true, ms.why+" ("+why+")")
		var gk []string
		for k := range ms.keys {
			if len(k) > 2 && k[:2] == "G:" {
				gk = append(gk, k)
			}
		}
		fr.havocKeys(st, gk)
	} else {
		fr.havocKeys(st, sortedKeys(ms.keys))
	}
	// private cells written in the region
	for a := range ms.priv {
		ref, ok := fr.vals[a]
		if !ok {
			continue // allocated inside the region: fresh anyway
		}
		et := deref(a.Type())
		var cells []privCell
		if _, isArr := et.Underlying().(*types.Array); isArr {
			cells = []privCell{{vc.keyCell(et), ref.S}}
		} else {
			cells = fr.cellsOf(ref, et)
		}
		for _, c := range cells {
			fv := vc.freshConst("pc", vc.kinds[c.key].Val)
			vc.set(st, c.key, "(store "+vc.cur(st, c.key)+" "+c.idx+" "+fv.S+")")
		}
	}
}

func toSet(xs []string) map[string]bool {
	m := map[string]bool{}
	for _, x := range xs {
		m[x] = true
	}
	return m
}
