package main

import (
	"fmt"
	"go/constant"
	"go/token"
	"go/types"
	"sort"
	"strings"

	"golang.org/x/tools/go/ssa"
)

const maxInlineDepth = 4

type encoder struct {
	prog    *ssa.Program
	vc      *VC
	db      *ContractDB
	tag     string // active property tag ("" = all)
	root    *ssa.Function
	modPath string
	consts  *constInfo
	ms      *modsetCache
	obSeq   map[string]int
	bvMode  bool
	safeAll bool
	// frame checking (root contract has an explicit modifies clause)
	assertHit     map[int]bool
	anchorsSeen   []string
	frameCheck    bool
	declMods      []declMod
	restoreChecks []restoreCheck
	callCovers    []*Obligation
}

// declMod is a location the root function is allowed to modify.
type declMod struct {
	key  string
	idx  string                  // "" = whole component
	pred func(idx string) string // region: the keys satisfying a predicate
}

type nameBinding struct {
	idx  int
	name string
	val  ssa.Value
	addr bool
}

type loopInfo struct {
	header  *ssa.BasicBlock
	blocks  map[*ssa.BasicBlock]bool
	latches []*ssa.BasicBlock
	ordinal int
	mods    *modSet
	hdrSt   *State // state after havoc (for iter())
	hdrVals map[ssa.Value]Term
}

type restoreCheck struct {
	key, idx, reach, listed, anchor, pos string
}

type retRec struct {
	cond    string
	st      *State
	results []Term
	idx     int
	blk     *ssa.BasicBlock
	pos     int
}

type privCell struct {
	key string
	idx string
}

type frame struct {
	curCall      *ssa.CallCommon
	curSite      ssa.Instruction
	keepBook     bool
	enc          *encoder
	fn           *ssa.Function
	parent       *frame
	depth        int
	prefix       string
	vals         map[ssa.Value]Term
	tuples       map[ssa.Value][]Term
	lvals        map[ssa.Value]*lval
	names        map[*ssa.BasicBlock][]nameBinding
	edges        map[*ssa.BasicBlock][]edgeIn
	outSt        map[*ssa.BasicBlock]*State
	rets         []retRec
	old          *State
	contract     *Contract
	loops        map[*ssa.BasicBlock]*loopInfo
	order        []*ssa.BasicBlock
	private      map[*ssa.Alloc]bool
	priv         []privCell
	callOrd      map[string]int
	retOrd       int
	curBlock     *ssa.BasicBlock
	curIdx       int
	deferN       int
	closures     map[ssa.Value]*ssa.MakeClosure
	loopOrd      map[*ssa.BasicBlock]int
	entryArgs    []Term
	callSites    map[string][]ssa.Instruction
	deferFrame   bool
	pendingFrame []func()
	callArgs     []Term
	callArgTypes []types.Type
	mapKV        *[2]tv
	lastLoadHW   string
	lastLoadBase string
	witness      map[string]string
}

func (e *encoder) inRepo(fn *ssa.Function) bool {
	if fn == nil {
		return false
	}
	p := fn.Pkg
	if p == nil && fn.Parent() != nil {
		p = fn.Parent().Pkg
	}
	if p == nil {
		if o := fn.Origin(); o != nil {
			p = o.Pkg
		}
	}
	if p == nil {
		return false
	}
	return strings.HasPrefix(p.Pkg.Path(), e.modPath)
}

func (e *encoder) newFrame(fn *ssa.Function, parent *frame) *frame {
	fr := &frame{enc: e, fn: fn, parent: parent, vals: map[ssa.Value]Term{}, tuples: map[ssa.Value][]Term{}, lvals: map[ssa.Value]*lval{},
		names: map[*ssa.BasicBlock][]nameBinding{}, edges: map[*ssa.BasicBlock][]edgeIn{}, outSt: map[*ssa.BasicBlock]*State{},
		loops: map[*ssa.BasicBlock]*loopInfo{}, private: map[*ssa.Alloc]bool{}, callOrd: map[string]int{}, closures: map[ssa.Value]*ssa.MakeClosure{}, loopOrd: map[*ssa.BasicBlock]int{}}
	if parent != nil {
		fr.depth = parent.depth + 1
	}
	fr.prefix = e.vc.fresh(shortName(fn))
	return fr
}

func shortName(fn *ssa.Function) string {
	s := fn.Name()
	return s
}

func (fr *frame) vc() *VC { return fr.enc.vc }

// ---------------------------------------------------------------------------
// CFG analysis

func (fr *frame) analyse() error {
	fn := fr.fn
	if len(fn.Blocks) == 0 {
		return fmt.Errorf("no body")
	}
	// reachable blocks (ignore recover block)
	reach := map[*ssa.BasicBlock]bool{}
	var dfs func(b *ssa.BasicBlock)
	var post []*ssa.BasicBlock
	state := map[*ssa.BasicBlock]int{}
	back := map[[2]*ssa.BasicBlock]bool{}
	dfs = func(b *ssa.BasicBlock) {
		reach[b] = true
		state[b] = 1
		for _, s := range b.Succs {
			if state[s] == 0 {
				dfs(s)
			} else if state[s] == 1 {
				back[[2]*ssa.BasicBlock{b, s}] = true
			}
		}
		state[b] = 2
		post = append(post, b)
	}
	dfs(fn.Blocks[0])
	for e := range back {
		if !e[1].Dominates(e[0]) {
			return fmt.Errorf("irreducible control flow")
		}
	}
	for i := len(post) - 1; i >= 0; i-- {
		fr.order = append(fr.order, post[i])
	}
	// loops
	var headers []*ssa.BasicBlock
	for e := range back {
		h := e[1]
		li := fr.loops[h]
		if li == nil {
			li = &loopInfo{header: h, blocks: map[*ssa.BasicBlock]bool{h: true}}
			fr.loops[h] = li
			headers = append(headers, h)
		}
		li.latches = append(li.latches, e[0])
		// natural loop
		var stack []*ssa.BasicBlock
		if !li.blocks[e[0]] {
			li.blocks[e[0]] = true
			stack = append(stack, e[0])
		}
		for len(stack) > 0 {
			b := stack[len(stack)-1]
			stack = stack[:len(stack)-1]
			for _, p := range b.Preds {
				if !li.blocks[p] && reach[p] {
					li.blocks[p] = true
					stack = append(stack, p)
				}
			}
		}
	}
	// loop ordinals in source order of header position
	sort.Slice(headers, func(i, j int) bool {
		pi, pj := blockPos(headers[i]), blockPos(headers[j])
		if pi != pj {
			return pi < pj
		}
		return headers[i].Index < headers[j].Index
	})
	for i, h := range headers {
		fr.loops[h].ordinal = i + 1
		sort.Slice(fr.loops[h].latches, func(a, b int) bool { return fr.loops[h].latches[a].Index < fr.loops[h].latches[b].Index })
	}
	// debug names and private allocs
	for _, b := range fn.Blocks {
		for i, ins := range b.Instrs {
			switch x := ins.(type) {
			case *ssa.DebugRef:
				if id, ok := x.Expr.(interface{ String() string }); ok {
					_ = id
				}
				if obj := x.Object(); obj != nil {
					if _, isVar := obj.(*types.Var); isVar {
						fr.names[b] = append(fr.names[b], nameBinding{idx: i, name: obj.Name(), val: x.X, addr: x.IsAddr})
					}
				}
			case *ssa.Alloc:
				fr.private[x] = isPrivateAlloc(x)
			case *ssa.MakeClosure:
				fr.closures[x] = x
			}
		}
	}
	return nil
}

// blockPos is the smallest source position of an instruction in the loop
// header's natural loop body start; used to order loops as in the source.
func blockPos(b *ssa.BasicBlock) token.Pos {
	best := token.NoPos
	var scan func(bb *ssa.BasicBlock)
	scan = func(bb *ssa.BasicBlock) {
		for _, ins := range bb.Instrs {
			p := ins.Pos()
			if d, ok := ins.(*ssa.DebugRef); ok {
				p = d.Expr.Pos()
			}
			if p != token.NoPos && (best == token.NoPos || p < best) {
				best = p
			}
		}
	}
	scan(b)
	if best == token.NoPos {
		for _, s := range b.Succs {
			scan(s)
		}
	}
	return best
}

// closureArgOK reports whether passing a closure as argument idx of the call is
// known not to let it escape (the callee runs it synchronously: an "invokes"
// clause in its contract).  Set by the encoder.
var closureArgOK func(c *ssa.CallCommon, idx int) bool

// readOnlyCapture: the captured variable (a pointer to the enclosing
// function's cell) is only ever loaded from inside the closure, or handed to
// nested closures that do the same.
func readOnlyCapture(fv ssa.Value, depth int) bool {
	refs := fv.Referrers()
	if refs == nil || depth > 4 {
		return false
	}
	for _, r := range *refs {
		switch x := r.(type) {
		case *ssa.DebugRef:
		case *ssa.UnOp:
			if x.Op != token.MUL {
				return false
			}
		case *ssa.MakeClosure:
			fn, ok := x.Fn.(*ssa.Function)
			if !ok {
				return false
			}
			for i, b := range x.Bindings {
				if b == fv && (i >= len(fn.FreeVars) || !readOnlyCapture(fn.FreeVars[i], depth+1)) {
					return false
				}
			}
		default:
			return false
		}
	}
	return true
}

func isPrivateAlloc(a *ssa.Alloc) bool {
	var ok func(v ssa.Value, depth int) bool
	closureOK := func(mc *ssa.MakeClosure) bool {
		refs := mc.Referrers()
		if refs == nil {
			return false
		}
		for _, r := range *refs {
			var cc *ssa.CallCommon
			switch x := r.(type) {
			case *ssa.DebugRef:
				continue
			case *ssa.Call:
				cc = x.Common()
			case *ssa.Defer:
				cc = x.Common()
			default:
				return false // stored, returned, sent or run as a goroutine
			}
			if cc.Value == mc {
				continue
			}
			allowed := false
			for i, arg := range cc.Args {
				if arg == mc && closureArgOK != nil && closureArgOK(cc, i) {
					allowed = true
				}
			}
			if !allowed {
				return false
			}
		}
		return true
	}
	ok = func(v ssa.Value, depth int) bool {
		refs := v.Referrers()
		if refs == nil {
			return false
		}
		for _, r := range *refs {
			switch x := r.(type) {
			case *ssa.DebugRef:
			case *ssa.UnOp:
				if x.Op != token.MUL {
					return false
				}
			case *ssa.Store:
				if x.Val == v {
					return false
				}
			case *ssa.FieldAddr:
				if !ok(x, depth+1) {
					return false
				}
			case *ssa.IndexAddr:
				if x.X != v || !ok(x, depth+1) {
					return false
				}
			case *ssa.MakeClosure:
				fn, isFn := x.Fn.(*ssa.Function)
				if !isFn {
					return false
				}
				// captured by a closure that never writes it (nor lets it
				// escape): wherever the closure ends up, the cell keeps the
				// value this function gave it
				ro := true
				for i, b := range x.Bindings {
					if b == v && (i >= len(fn.FreeVars) || !readOnlyCapture(fn.FreeVars[i], 0)) {
						ro = false
					}
				}
				if ro {
					continue
				}
				// captured by a closure that only runs synchronously and only loads/stores it
				if depth > 0 || !closureOK(x) {
					return false
				}
				for i, b := range x.Bindings {
					if b == v {
						if i >= len(fn.FreeVars) || !ok(fn.FreeVars[i], depth+1) {
							return false
						}
					}
				}
			default:
				return false
			}
		}
		return true
	}
	return ok(a, 0)
}

// ---------------------------------------------------------------------------
// values

func (fr *frame) val(v ssa.Value) Term {
	vc := fr.vc()
	switch x := v.(type) {
	case *ssa.Const:
		return fr.constTerm(x)
	case *ssa.Global:
		name := "gaddr!" + x.Pkg.Pkg.Path() + "." + x.Name()
		if !vc.declared[name] {
			vc.declConst(name, "Int")
			vc.fact(fmt.Sprintf("(< %s 0)", sym(name)))
		}
		return Term{sym(name), SInt}
	case *ssa.Function:
		name := "fn!" + x.String()
		vc.declConst(name, "V")
		if !vc.declared["nn!"+name] {
			vc.declared["nn!"+name] = true
			vc.fact(fmt.Sprintf("(not (= %s vnil))", sym(name)))
		}
		return Term{sym(name), SV}
	case *ssa.Builtin:
		return Term{"vnil", SV}
	}
	if t, ok := fr.vals[v]; ok {
		return t
	}
	// lazily materialise address values
	switch x := v.(type) {
	case *ssa.FieldAddr:
		lv := fr.addrOf(x)
		t := fr.lvalAsPointer(lv)
		fr.vals[v] = t
		return t
	case *ssa.IndexAddr:
		lv := fr.addrOf(x)
		t := fr.lvalAsPointer(lv)
		fr.vals[v] = t
		return t
	}
	// free variable of enclosing frame? (should have been bound)
	vc.warn("%s: value %s (%T) used before definition; havoced", fr.fn, v.Name(), v)
	t := vc.freshConst(fr.prefix+"."+v.Name(), sortOf(v.Type()))
	fr.vals[v] = t
	return t
}

func (fr *frame) constTerm(c *ssa.Const) Term {
	vc := fr.vc()
	so := sortOf(c.Type())
	if c.Value == nil {
		// zero value / nil
		return fr.enc.zeroValue(c.Type())
	}
	switch c.Value.Kind() {
	case constant.Bool:
		if constant.BoolVal(c.Value) {
			return Term{"true", SBool}
		}
		return Term{"false", SBool}
	case constant.String:
		return vc.strLit(constant.StringVal(c.Value))
	case constant.Int:
		if so != SInt {
			// e.g. float typed const with integer value
			name := "fconst!" + c.Value.ExactString()
			vc.declConst(name, "V")
			return Term{sym(name), SV}
		}
		s := c.Value.ExactString()
		if strings.HasPrefix(s, "-") {
			return Term{"(- " + s[1:] + ")", SInt}
		}
		return Term{s, SInt}
	default:
		name := "fconst!" + c.Value.ExactString()
		vc.declConst(name, so.String())
		return Term{sym(name), so}
	}
}

func (e *encoder) zeroValue(t types.Type) Term {
	vc := e.vc
	switch u := t.Underlying().(type) {
	case *types.Basic:
		switch {
		case u.Info()&types.IsBoolean != 0:
			return Term{"false", SBool}
		case u.Info()&types.IsInteger != 0, u.Kind() == types.UnsafePointer:
			return Term{"0", SInt}
		case u.Info()&types.IsString != 0:
			return Term{"str_empty", SV}
		case u.Kind() == types.UntypedNil:
			return Term{"vnil", SV}
		}
		name := "fzero"
		vc.declConst(name, "V")
		return Term{name, SV}
	case *types.Pointer, *types.Map, *types.Chan:
		return Term{"0", SInt}
	case *types.Struct:
		name := "zero!" + typeKey(t)
		if opaqueTypes[typeKey(t)] {
			if typeKey(t) == "time.Time" {
				return Term{"time_zero", SV}
			}
			vc.declConst(name, "V")
			return Term{sym(name), SV}
		}
		if !vc.declared[name] {
			vc.declConst(name, "V")
			for i := 0; i < u.NumFields(); i++ {
				f := u.Field(i)
				sel := e.fldSel(t, f.Name(), sortOf(f.Type()))
				vc.fact(eq(fmt.Sprintf("(%s %s)", sel, sym(name)), e.zeroValue(f.Type()).S))
			}
		}
		return Term{sym(name), SV}
	case *types.Array:
		name := "zero!" + typeKey(t)
		vc.declConst(name, "V")
		return Term{sym(name), SV}
	}
	return Term{"vnil", SV}
}

func (e *encoder) fldSel(structT types.Type, field string, so Sort) string {
	name := "fld:" + typeKey(structT) + "." + field
	e.vc.declFun(name, []string{"V"}, so.String())
	return sym(name)
}

func (e *encoder) faFun(structT types.Type, field string) string {
	name := "fa:" + typeKey(structT) + "." + field
	if !e.vc.declared[name] {
		e.vc.declFun(name, []string{"Int"}, "Int")
		inv := "fainv:" + typeKey(structT) + "." + field
		e.vc.declFun(inv, []string{"Int"}, "Int")
		e.vc.fact(fmt.Sprintf("(forall ((x Int)) (! (and (= (%s (%s x)) x) (< (%s x) 0) (= (rootref (%s x)) (rootref x))) :pattern ((%s x))))", sym(inv), sym(name), sym(name), sym(name), sym(name)))
	}
	return sym(name)
}

// assumeType adds the type-range facts of a freshly introduced value.
func (fr *frame) assumeType(t Term, ty types.Type, st *State) {
	vc := fr.vc()
	if lo, hi, ok := intRange(ty); ok {
		vc.fact(fmt.Sprintf("(and (<= %s %s) (<= %s %s))", lo, t.S, t.S, hi))
		return
	}
	switch ty.Underlying().(type) {
	case *types.Pointer, *types.Map, *types.Chan:
		if st != nil {
			vc.fact(fmt.Sprintf("(< %s %s)", t.S, st.hw))
		}
	}
}

// ---------------------------------------------------------------------------
// lvalues

type lvKind int

const (
	lvField lvKind = iota
	lvCell
	lvStruct
	lvElem      // element of an array stored in container lvalue
	lvSliceElem // element of a slice value
	lvValField  // field of a struct value that is itself an element (of a slice or array) or such a field
)

type lval struct {
	kind      lvKind
	key       string
	base      Term // pointer/base object
	structT   types.Type
	field     string
	elemT     types.Type
	container *lval
	idx       Term
	slice     Term
}

func deref(t types.Type) types.Type {
	if p, ok := t.Underlying().(*types.Pointer); ok {
		return p.Elem()
	}
	return t
}

// opaqueTypes are struct types treated as scalar values (one V cell): their
// fields are never inspected by the code under contract (time.Time, ...).
var opaqueTypes = map[string]bool{}

func isStruct(t types.Type) bool {
	_, ok := t.Underlying().(*types.Struct)
	if ok && opaqueTypes[types.TypeString(t, nil)] {
		return false
	}
	return ok
}

func (fr *frame) addrOf(v ssa.Value) *lval {
	if lv, ok := fr.lvals[v]; ok {
		return lv
	}
	vc := fr.vc()
	var lv *lval
	switch x := v.(type) {
	case *ssa.FieldAddr:
		st := deref(x.X.Type())
		su := st.Underlying().(*types.Struct)
		f := su.Field(x.Field)
		if in := fr.elemValueLval(x.X); in != nil {
			// a field of an element: elements are values, so the field is
			// read off the element value (no address is made up for it)
			lv = &lval{kind: lvValField, container: in, structT: st, field: f.Name(), elemT: f.Type()}
			fr.lvals[v] = lv
			return lv
		}
		basePtr := fr.val(x.X)
		if isStruct(f.Type()) {
			lv = &lval{kind: lvStruct, base: Term{fmt.Sprintf("(%s %s)", fr.enc.faFun(st, f.Name()), basePtr.S), SInt}, elemT: f.Type()}
		} else {
			lv = &lval{kind: lvField, key: vc.keyField(st, f.Name(), sortOf(f.Type())), base: basePtr, structT: st, field: f.Name(), elemT: f.Type()}
		}
	case *ssa.IndexAddr:
		switch xt := x.X.Type().Underlying().(type) {
		case *types.Pointer:
			arr := xt.Elem().Underlying().(*types.Array)
			cont := fr.addrOf(x.X)
			lv = &lval{kind: lvElem, container: cont, idx: fr.val(x.Index), elemT: arr.Elem()}
		case *types.Slice:
			lv = &lval{kind: lvSliceElem, slice: fr.val(x.X), idx: fr.val(x.Index), elemT: xt.Elem()}
		default:
			lv = &lval{kind: lvSliceElem, slice: fr.val(x.X), idx: fr.val(x.Index), elemT: deref(x.Type())}
		}
	default:
		et := deref(v.Type())
		p := fr.val(v)
		if isStruct(et) {
			lv = &lval{kind: lvStruct, base: p, elemT: et}
		} else {
			lv = &lval{kind: lvCell, key: vc.keyCell(et), base: p, elemT: et}
		}
	}
	fr.lvals[v] = lv
	return lv
}

// elemValueLval: v is the address of a slice/array element (or of a field of
// one) that has not been used as a pointer value; its lvalue reads the element
// value.  nil otherwise.
func (fr *frame) elemValueLval(v ssa.Value) *lval {
	if _, done := fr.vals[v]; done {
		return nil
	}
	switch v.(type) {
	case *ssa.IndexAddr, *ssa.FieldAddr:
		if in := fr.addrOf(v); in.kind == lvSliceElem && !isByte(in.elemT) || in.kind == lvElem || in.kind == lvValField {
			return in
		}
	}
	return nil
}

func (fr *frame) lvalAsPointer(lv *lval) Term {
	switch lv.kind {
	case lvStruct, lvCell:
		return lv.base
	case lvField:
		return Term{fmt.Sprintf("(%s %s)", fr.enc.faFun(lv.structT, lv.field), lv.base.S), SInt}
	}
	fr.vc().warn("%s: address of slice/array element escapes; modelled as fresh pointer", fr.fn)
	return fr.vc().freshConst(fr.prefix+".elemaddr", SInt)
}

func atFn(so Sort) string  { return "at_" + so.Suffix() }
func updFn(so Sort) string { return "upd_" + so.Suffix() }

func (fr *frame) load(lv *lval, st *State) Term {
	vc := fr.vc()
	switch lv.kind {
	case lvField, lvCell:
		k := vc.kinds[lv.key]
		ver := vc.cur(st, lv.key)
		fr.lastLoadHW = vc.verHW[ver]
		fr.lastLoadBase = lv.base.S
		return Term{fmt.Sprintf("(select %s %s)", ver, lv.base.S), k.Val}
	case lvStruct:
		return fr.loadStruct(lv.base, lv.elemT, st)
	case lvElem:
		c := fr.load(lv.container, st)
		so := sortOf(lv.elemT)
		return Term{fmt.Sprintf("(%s %s %s)", atFn(so), c.S, lv.idx.S), so}
	case lvValField:
		c := fr.load(lv.container, st)
		so := sortOf(lv.elemT)
		return Term{fmt.Sprintf("(%s %s)", fr.enc.fldSel(lv.structT, lv.field, so), c.S), so}
	case lvSliceElem:
		so := sortOf(lv.elemT)
		if isByte(lv.elemT) {
			return Term{fmt.Sprintf("(byte_at %s (+ (sl_off %s) %s))", fmt.Sprintf("(select %s (sl_base %s))", vc.cur(st, vc.keyBM()), lv.slice.S), lv.slice.S, lv.idx.S), SInt}
		}
		return Term{fmt.Sprintf("(%s %s %s)", atFn(so), lv.slice.S, lv.idx.S), so}
	}
	panic("load")
}

func isByte(t types.Type) bool {
	b, ok := t.Underlying().(*types.Basic)
	return ok && b.Kind() == types.Uint8
}

func isByteSlice(t types.Type) bool {
	s, ok := t.Underlying().(*types.Slice)
	return ok && isByte(s.Elem())
}

func (fr *frame) loadStruct(ptr Term, t types.Type, st *State) Term {
	vc := fr.vc()
	su := t.Underlying().(*types.Struct)
	v := vc.freshConst(fr.prefix+".sv", SV)
	for i := 0; i < su.NumFields(); i++ {
		f := su.Field(i)
		so := sortOf(f.Type())
		sel := fr.enc.fldSel(t, f.Name(), so)
		var fv Term
		if isStruct(f.Type()) {
			fv = fr.loadStruct(Term{fmt.Sprintf("(%s %s)", fr.enc.faFun(t, f.Name()), ptr.S), SInt}, f.Type(), st)
		} else {
			key := vc.keyField(t, f.Name(), so)
			fv = Term{fmt.Sprintf("(select %s %s)", vc.cur(st, key), ptr.S), so}
		}
		vc.fact(eq(fmt.Sprintf("(%s %s)", sel, v.S), fv.S))
	}
	return v
}

func (fr *frame) store(lv *lval, val Term, st *State) {
	vc := fr.vc()
	switch lv.kind {
	case lvField, lvCell:
		fr.frameWrite(lv.key, lv.base.S, st)
		vc.set(st, lv.key, fmt.Sprintf("(store %s %s %s)", vc.cur(st, lv.key), lv.base.S, val.S))
	case lvStruct:
		fr.frameWrite("", lv.base.S, st)
		fr.storeStruct(lv.base, lv.elemT, val, st)
	case lvElem:
		c := fr.load(lv.container, st)
		so := sortOf(lv.elemT)
		nv := Term{fmt.Sprintf("(%s %s %s %s)", updFn(so), c.S, lv.idx.S, val.S), SV}
		fr.store(lv.container, nv, st)
	case lvSliceElem:
		if isByte(lv.elemT) {
			bm := vc.keyBM()
			fr.frameWrite(bm, fmt.Sprintf("(sl_base %s)", lv.slice.S), st)
			vc.set(st, bm, fmt.Sprintf("(store %s (sl_base %s) %s)", vc.cur(st, bm), lv.slice.S, vc.freshConst("bytes", SV).S))
			return
		}
		vc.warn("%s: store through slice element is not modelled (slice contents are values); function is outside the precise subset", fr.fn)
	case lvValField:
		vc.warn("%s: store to a field of a slice/array element is not modelled (element contents are values); function is outside the precise subset", fr.fn)
	}
}

func (fr *frame) storeStruct(ptr Term, t types.Type, val Term, st *State) {
	vc := fr.vc()
	su := t.Underlying().(*types.Struct)
	for i := 0; i < su.NumFields(); i++ {
		f := su.Field(i)
		so := sortOf(f.Type())
		sel := fr.enc.fldSel(t, f.Name(), so)
		fv := Term{fmt.Sprintf("(%s %s)", sel, val.S), so}
		if isStruct(f.Type()) {
			fr.storeStruct(Term{fmt.Sprintf("(%s %s)", fr.enc.faFun(t, f.Name()), ptr.S), SInt}, f.Type(), fv, st)
		} else {
			key := vc.keyField(t, f.Name(), so)
			vc.set(st, key, fmt.Sprintf("(store %s %s %s)", vc.cur(st, key), ptr.S, fv.S))
		}
	}
}

// cellsOf lists the (key, index) pairs occupied by an object of type t at ptr.
func (fr *frame) cellsOf(ptr Term, t types.Type) []privCell {
	vc := fr.vc()
	if su, ok := t.Underlying().(*types.Struct); ok && isStruct(t) {
		var out []privCell
		for i := 0; i < su.NumFields(); i++ {
			f := su.Field(i)
			if isStruct(f.Type()) {
				out = append(out, fr.cellsOf(Term{fmt.Sprintf("(%s %s)", fr.enc.faFun(t, f.Name()), ptr.S), SInt}, f.Type())...)
			} else {
				out = append(out, privCell{vc.keyField(t, f.Name(), sortOf(f.Type())), ptr.S})
			}
		}
		return out
	}
	return []privCell{{vc.keyCell(t), ptr.S}}
}

func (fr *frame) alloc(t types.Type, st *State) Term {
	vc := fr.vc()
	ref := vc.freshConst(fr.prefix+".ref", SInt)
	vc.fact(eq(ref.S, st.hw))
	nh := vc.freshConst("hw", SInt)
	vc.fact(eq(nh.S, fmt.Sprintf("(+ %s 1)", st.hw)))
	st.hw = nh.S
	return ref
}

func (fr *frame) zeroInit(ptr Term, t types.Type, st *State) {
	vc := fr.vc()
	if su, ok := t.Underlying().(*types.Struct); ok && isStruct(t) {
		for i := 0; i < su.NumFields(); i++ {
			f := su.Field(i)
			if isStruct(f.Type()) {
				fr.zeroInit(Term{fmt.Sprintf("(%s %s)", fr.enc.faFun(t, f.Name()), ptr.S), SInt}, f.Type(), st)
			} else {
				key := vc.keyField(t, f.Name(), sortOf(f.Type()))
				vc.set(st, key, fmt.Sprintf("(store %s %s %s)", vc.cur(st, key), ptr.S, fr.enc.zeroValue(f.Type()).S))
			}
		}
		return
	}
	key := vc.keyCell(t)
	vc.set(st, key, fmt.Sprintf("(store %s %s %s)", vc.cur(st, key), ptr.S, fr.enc.zeroValue(t).S))
}

// allPriv returns the private cells of this frame and its ancestors.
func (fr *frame) allPriv() []privCell {
	var out []privCell
	for f := fr; f != nil; f = f.parent {
		out = append(out, f.priv...)
	}
	return out
}

// havocKeys gives fresh versions to the given keys, preserving private cells.
func (fr *frame) havocKeys(st *State, keys []string) {
	vc := fr.vc()
	priv := fr.allPriv()
	for _, k := range keys {
		if vc.kinds[k] == nil {
			continue
		}
		old := vc.cur(st, k)
		nv := vc.bump(st, k)
		for _, p := range priv {
			if p.key == k {
				vc.fact(eq(fmt.Sprintf("(select %s %s)", nv, p.idx), fmt.Sprintf("(select %s %s)", old, p.idx)))
			}
		}
	}
}

// keepBook: the havoc stands for code that cannot run contract-bearing repo
// functions (an assumed "modifies all"), so bookkeeping ghosts survive it.
func (fr *frame) havocEverythingBut(st *State, why string) {
	fr.keepBook = true
	fr.havocEverything(st, false, why)
	fr.keepBook = false
}

func (fr *frame) havocEverything(st *State, keepGhost bool, why string) {
	vc := fr.vc()
	fr.frameHavoc(st, why)
	priv := fr.allPriv()
	olds := map[string]string{}
	for _, p := range priv {
		if _, ok := olds[p.key]; !ok {
			olds[p.key] = vc.cur(st, p.key)
		}
	}
	var saved map[string]string
	if fr.keepBook && !keepGhost {
		saved = map[string]string{}
		for name, g := range fr.enc.db.Ghosts {
			if g.Book {
				k := vc.keyGhost(g)
				saved[k] = vc.cur(st, k)
				_ = name
			}
		}
	}
	vc.havocAll(st, keepGhost)
	for k, v := range saved {
		st.ver[k] = v
	}
	for _, p := range priv {
		nv := vc.cur(st, p.key)
		vc.fact(eq(fmt.Sprintf("(select %s %s)", nv, p.idx), fmt.Sprintf("(select %s %s)", olds[p.key], p.idx)))
	}
	vc.havocAll2(why)
}

func (vc *VC) havocAll2(why string) {
	for _, w := range vc.havocLog {
		if w == why {
			return
		}
	}
	vc.havocLog = append(vc.havocLog, why)
}

// ---------------------------------------------------------------------------
// obligations

func (fr *frame) root() *frame {
	f := fr
	for f.parent != nil {
		f = f.parent
	}
	return f
}

func (fr *frame) anchorPrefix() string {
	if fr.parent == nil {
		return ""
	}
	return fr.parent.anchorPrefix() + "inl:" + shortFn(fr.fn) + "/"
}

func shortFn(fn *ssa.Function) string {
	s := fn.String()
	if i := strings.LastIndex(s, "/"); i >= 0 {
		// keep receiver parens
		pre := ""
		if strings.HasPrefix(s, "(*") {
			pre = "(*"
		} else if strings.HasPrefix(s, "(") {
			pre = "("
		}
		return pre + s[i+1:]
	}
	return s
}

func (fr *frame) oblige(kind, sub, anchor string, st *State, goal string, desc string, tags []string) {
	e := fr.enc
	vc := e.vc
	if goal == "true" {
		// trivially true obligations are still counted (cheap) unless safe
		if kind == "safe" {
			return
		}
	}
	name := fmt.Sprintf("%s#%s@%s%s", shortFn(e.root), kind, fr.anchorPrefix(), anchor)
	if sub != "" {
		name += ":" + sub
	}
	e.obSeq[name]++
	if n := e.obSeq[name]; n > 1 {
		name = fmt.Sprintf("%s~%d", name, n)
	}
	pos := ""
	if fr.curBlock != nil && fr.curIdx < len(fr.curBlock.Instrs) {
		pos = e.prog.Fset.Position(instrPos(fr.curBlock.Instrs[fr.curIdx])).String()
	}
	ob := &Obligation{Name: name, Kind: kind, Sub: sub, Guard: st.reach, Goal: goal, NFacts: len(vc.facts), Pos: pos, Desc: desc, Tags: tags, Func: shortFn(e.root), Expect: "unsat"}
	if fr.witness != nil {
		ob.Witness = fr.witness
		fr.witness = nil
	}
	vc.obls = append(vc.obls, ob)
	// after checking, assume it (conversions are modelled exactly instead)
	if !(kind == "safe" && strings.HasPrefix(anchor, "convert:")) && kind != "decreases" {
		ob.AssumeIdx = len(vc.facts)
		before := len(vc.facts)
		vc.fact(implies(st.reach, goal))
		if len(vc.facts) == before {
			ob.AssumeIdx = -1
		}
	} else {
		ob.AssumeIdx = -1
	}
}

func instrPos(ins ssa.Instruction) token.Pos {
	if p := ins.Pos(); p != token.NoPos {
		return p
	}
	if d, ok := ins.(*ssa.DebugRef); ok {
		return d.Expr.Pos()
	}
	return token.NoPos
}

func (fr *frame) assume(st *State, f string) {
	fr.vc().fact(implies(st.reach, f))
}

// frameWrite emits the frame obligation for a write to (key, idx): the
// location is either allocated during this call or declared in the root
// contract's modifies clause.
func (fr *frame) frameWrite(key string, idx string, st *State) {
	e := fr.enc
	if !e.frameCheck {
		return
	}
	alts := []string{fmt.Sprintf("(>= (rootref %s) hw!0)", idx)}
	for _, d := range e.declMods {
		if d.key != key && key != "" && d.key != "*" && d.key != "*heap" {
			continue
		}
		if d.idx == "" {
			alts = append(alts, "true")
		} else {
			alts = append(alts, eq(idx, d.idx))
		}
	}
	goal := or(alts...)
	run := func() {
		fr.oblige("frame", "", fr.nextAnchor("write"), st, goal, "write to a location that is neither fresh nor listed in modifies ("+key+")", nil)
	}
	if fr.deferFrame {
		fr.pendingFrame = append(fr.pendingFrame, run)
		return
	}
	run()
}

// frameHavoc: an effect that cannot be attributed to declared locations.
func (fr *frame) frameHavoc(st *State, what string) {
	if !fr.enc.frameCheck {
		return
	}
	for _, d := range fr.enc.declMods {
		if d.key == "*" && d.idx == "" {
			if !fr.keepBook {
				// unknown code may run contract-bearing functions: every bookkeeping ghost must be listed
				for _, g := range fr.enc.db.Ghosts {
					if g.Book && !fr.enc.declaresWhole(fr.vc().keyGhost(g)) {
						fr.oblige("frame", "", fr.nextAnchor("havoc"), st, "false", "unbounded effect ("+what+") may change bookkeeping ghost "+g.Name+", which \"modifies all\" does not cover", nil)
						return
					}
				}
			}
			return
		}
		if d.key == "*heap" && (strings.HasPrefix(what, "go ") || strings.HasPrefix(what, "heap-only:") || what == "modifies heap") {
			return
		}
	}
	fr.oblige("frame", "", fr.nextAnchor("havoc"), st, "false", "unbounded effect ("+what+") in a function whose contract has a modifies clause", nil)
}

func (e *encoder) declaresWhole(key string) bool {
	for _, d := range e.declMods {
		if d.key == key && d.idx == "" && d.pred == nil {
			return true
		}
	}
	return false
}

func (e *encoder) isBookKey(key string) bool {
	for _, g := range e.db.Ghosts {
		if g.Book && "G:"+g.Name == key {
			return true
		}
	}
	return false
}
