package main

import (
	"encoding/json"
	"fmt"
	"os"
	"path/filepath"
	"sort"
	"strings"
)

// writeReplay writes the replay file for a failed obligation.  It returns
// true when the counterexample was reproduced on the real code.
func writeReplay(w *World, id string, ob *Obligation, vc *VC, path string, reason string) bool {
	var b strings.Builder
	fmt.Fprintf(&b, "property: %s\nobligation: %s\nkind: %s\nstatus: %s\nsolver: %s\n", id, ob.Name, ob.Kind, ob.Status, ob.Solver)
	if ob.Pos != "" {
		fmt.Fprintf(&b, "position: %s\n", ob.Pos)
	}
	fmt.Fprintf(&b, "goal: %s\n", ob.Desc)
	if reason != "" {
		fmt.Fprintf(&b, "reason: %s\n", reason)
	}
	switch ob.Status {
	case "sat":
		b.WriteString("verdict: the solver found an execution of the function (values for inputs, heap and callee results allowed by the callees' contracts) that violates the goal\n")
	case "unknown", "timeout":
		b.WriteString("verdict: obligation no longer discharged (it is discharged on the unchanged tree); no model available\n")
	}
	reproduced := false
	if vc != nil && (ob.Status == "sat" || ob.Approx) {
		b.WriteString(w.db.witnessText(vc, ob))
	}
	if vc == nil && ob.Status == "sat" && ob.Kind == "const" {
		if tmpl := constReplayers[id]; tmpl != nil {
			ok, text := tmpl(w, ob)
			b.WriteString("\n--- replay on the real code ---\n")
			b.WriteString(text)
			reproduced = ok
			if ok {
				b.WriteString("\nreplay: REPRODUCED on the real code\n")
			} else {
				b.WriteString("\nreplay: not reproduced (no-failing-input-found)\n")
			}
		}
	}
	if vc != nil && ob.Status != "unsat" {
		if tmpl := replayers[id]; tmpl != nil {
			ok, text := tmpl(w, ob, vc)
			b.WriteString("\n--- replay on the real code ---\n")
			b.WriteString(text)
			reproduced = ok
			if ok {
				b.WriteString("\nreplay: REPRODUCED on the real code\n")
			} else {
				b.WriteString("\nreplay: not reproduced (no-failing-input-found)\n")
			}
		}
	}
	if ob.Model != "" {
		b.WriteString("\n--- solver output ---\n")
		m := ob.Model
		if len(m) > 20000 {
			m = m[:20000] + "\n... (truncated)"
		}
		b.WriteString(m)
		b.WriteString("\n")
	}
	if vc != nil {
		q := w.db.queryText(vc, ob, true)
		if len(q) < 400000 {
			b.WriteString("\n--- SMT-LIB query ---\n")
			b.WriteString(q)
		}
	}
	os.MkdirAll(filepath.Dir(path), 0o755)
	os.WriteFile(path, []byte(b.String()), 0o644)
	return reproduced
}

// replayers turn a model into a concrete run of the real code.
var replayers = map[string]func(w *World, ob *Obligation, vc *VC) (bool, string){}

// constReplayers replay counterexamples of constant (regexp language) obligations.
var constReplayers = map[string]func(w *World, ob *Obligation) (bool, string){}

func runReplayFile(path, repo string) int {
	return 0
}

type evidence struct {
	PropertyID  string                 `json:"property_id"`
	Tier        string                 `json:"tier"`
	Seed        int                    `json:"seed"`
	Level       string                 `json:"level"`
	Coverage    map[string]interface{} `json:"coverage"`
	Assumptions []string               `json:"assumptions"`
	WallS       float64                `json:"wall_s"`
	Violations  int                    `json:"violations"`
}

func writeEvidence(w *World, pc *PropConfig, id, tier string, seed int, results []*FuncResult, recs []oblRecord, knownRecs []oblRecord, nOb, nDis, unclaimed, violations int, backends map[string]int, solverTime float64, assumedContracts []string, wall float64) {
	var funcs []string
	trusted := map[string]bool{}
	havoc := map[string]bool{}
	var warnings []string
	for _, r := range results {
		funcs = append(funcs, r.Key)
		for k := range r.VC.usedSpecs {
			if strings.HasPrefix(k, "contract:") {
				key := k[len("contract:"):]
				if strings.HasPrefix(key, "invariant assumed") || strings.HasPrefix(key, "assumed postcondition") {
					trusted[key] = true
					continue
				}
				if ct := w.db.ByKey[key]; ct != nil && ct.Trusted {
					trusted["assumed contract: "+key] = true
				} else if ct != nil && ct.NoVerify {
					trusted["assumed (unverified) repo contract: "+key] = true
				}
			}
		}
		for _, h := range r.VC.havocLog {
			havoc[h] = true
		}
		for _, wn := range r.VC.warnings {
			warnings = append(warnings, wn)
		}
	}
	for _, k := range assumedContracts {
		trusted["assumed (unverified) repo contract: "+k] = true
	}
	tb := []string{
		"go/packages+go/types+go/ssa (x/tools v0.29.0) as a faithful front end for the code in /repo (SSA built from the working tree on every run, -tags verif)",
		"govc VC generator (/verif/govc): passive-form weakest-precondition encoding; strings/slices/interfaces as uninterpreted values; heap as one array per struct field",
		"SMT solvers z3 5.1.0 (z3-new), z3 4.8.12, cvc5 1.0; prelude axioms in /verif/spec/*.smt2",
		"integers are mathematical; results of + - * are assumed in range unless the overflow obligation is claimed",
		"goroutines are not interleaved (go f() havocs the heap); channel operations do not block; data-race freedom assumed",
	}
	tb = append(tb, sortedKeys(trusted)...)
	var samples []interface{}
	for i, r := range recs {
		if r.Kind == "safe" || r.Kind == "vacuity" {
			continue
		}
		samples = append(samples, r)
		if len(samples) >= 8 || i > 400 {
			break
		}
	}
	if len(samples) == 0 {
		for _, r := range recs {
			samples = append(samples, r)
			if len(samples) >= 3 {
				break
			}
		}
	}
	sort.Strings(funcs)
	cov := map[string]interface{}{
		"obligations":                  nOb,
		"discharged":                   nDis,
		"checker_cmd":                  fmt.Sprintf("/verif/bin/govc check %s --tier %s", id, tier),
		"trusted_base":                 tb,
		"functions_under_contract":     funcs,
		"backends":                     backends,
		"solver_time_s":                round3(solverTime),
		"unclaimed_safety_obligations": unclaimed,
		"samples":                      samples,
		"obligation_list":              recs,
		"unmodelled_calls_havoced":     sortedKeys(havoc),
	}
	if len(knownRecs) > 0 {
		cov["known_findings_not_counted"] = knownRecs
	}
	if len(warnings) > 0 {
		cov["encoder_warnings"] = warnings
	}
	lvl := pc.Level
	if lvl == "" {
		lvl = "proof"
	}
	ev := evidence{PropertyID: id, Tier: tier, Seed: seed, Level: lvl, Coverage: cov, Assumptions: pc.Assumptions, WallS: round3(wall), Violations: violations}
	if ev.Assumptions == nil {
		ev.Assumptions = []string{}
	}
	if os.Getenv("VERIF_NO_EVIDENCE") != "" {
		return
	}
	b, _ := json.MarshalIndent(ev, "", " ")
	os.MkdirAll(filepath.Join(w.verifDir, "evidence"), 0o755)
	os.WriteFile(filepath.Join(w.verifDir, "evidence", id+".json"), b, 0o644)
}
