package main

import (
	"fmt"
	"go/types"
	"net/textproto"
	"sort"
	"strings"
)

// Sort is the SMT sort of an encoded value.  The encoding uses three sorts
// only: mathematical Int (all Go integers, pointers, maps, channels), Bool,
// and one uninterpreted universe V (strings/byte sequences, slices, struct
// values, interfaces, funcs, arrays, floats).
type Sort int

const (
	SInt Sort = iota
	SBool
	SV
)

func (s Sort) String() string {
	switch s {
	case SInt:
		return "Int"
	case SBool:
		return "Bool"
	}
	return "V"
}

func (s Sort) Suffix() string {
	switch s {
	case SInt:
		return "I"
	case SBool:
		return "B"
	}
	return "V"
}

func parseSort(s string) (Sort, bool) {
	switch s {
	case "Int":
		return SInt, true
	case "Bool":
		return SBool, true
	case "V":
		return SV, true
	}
	return SV, false
}

type Term struct {
	S    string
	Sort Sort
}

func T(s string, so Sort) Term { return Term{s, so} }

func sortOf(t types.Type) Sort {
	if t == nil {
		return SV
	}
	switch u := t.Underlying().(type) {
	case *types.Basic:
		info := u.Info()
		switch {
		case info&types.IsBoolean != 0:
			return SBool
		case info&types.IsInteger != 0:
			return SInt
		case u.Kind() == types.UnsafePointer:
			return SInt
		}
		return SV
	case *types.Pointer, *types.Map, *types.Chan:
		return SInt
	}
	return SV
}

// intRange returns the inclusive range of an integer type (64-bit platform).
func intRange(t types.Type) (lo, hi string, ok bool) {
	b, isb := t.Underlying().(*types.Basic)
	if !isb || b.Info()&types.IsInteger == 0 {
		return "", "", false
	}
	switch b.Kind() {
	case types.Int8:
		return "(- 128)", "127", true
	case types.Int16:
		return "(- 32768)", "32767", true
	case types.Int32:
		return "(- 2147483648)", "2147483647", true
	case types.Int, types.Int64, types.UntypedInt, types.UntypedRune:
		return "(- 9223372036854775808)", "9223372036854775807", true
	case types.Uint8:
		return "0", "255", true
	case types.Uint16:
		return "0", "65535", true
	case types.Uint32:
		return "0", "4294967295", true
	case types.Uint, types.Uint64, types.Uintptr:
		return "0", "18446744073709551615", true
	}
	return "", "", false
}

func smtInt(n int64) string {
	if n < 0 {
		if n == -9223372036854775808 {
			return "(- 9223372036854775808)"
		}
		return fmt.Sprintf("(- %d)", -n)
	}
	return fmt.Sprintf("%d", n)
}

func and(xs ...string) string {
	var ys []string
	for _, x := range xs {
		if x == "true" || x == "" {
			continue
		}
		if x == "false" {
			return "false"
		}
		ys = append(ys, x)
	}
	switch len(ys) {
	case 0:
		return "true"
	case 1:
		return ys[0]
	}
	return "(and " + strings.Join(ys, " ") + ")"
}

func or(xs ...string) string {
	var ys []string
	for _, x := range xs {
		if x == "false" || x == "" {
			continue
		}
		if x == "true" {
			return "true"
		}
		ys = append(ys, x)
	}
	switch len(ys) {
	case 0:
		return "false"
	case 1:
		return ys[0]
	}
	return "(or " + strings.Join(ys, " ") + ")"
}

func not(x string) string {
	switch x {
	case "true":
		return "false"
	case "false":
		return "true"
	}
	if strings.HasPrefix(x, "(not ") && balanced(x[5:len(x)-1]) {
		return x[5 : len(x)-1]
	}
	return "(not " + x + ")"
}

func balanced(s string) bool {
	d := 0
	for i := 0; i < len(s); i++ {
		switch s[i] {
		case '(':
			d++
		case ')':
			d--
			if d < 0 {
				return false
			}
		case '|':
			j := strings.IndexByte(s[i+1:], '|')
			if j < 0 {
				return false
			}
			i += j + 1
		}
	}
	return d == 0
}

func implies(a, b string) string {
	if a == "true" {
		return b
	}
	if a == "false" || b == "true" {
		return "true"
	}
	return "(=> " + a + " " + b + ")"
}

func eq(a, b string) string {
	if a == b {
		return "true"
	}
	return "(= " + a + " " + b + ")"
}

func ite(c, a, b string) string {
	if c == "true" {
		return a
	}
	if c == "false" {
		return b
	}
	if a == b {
		return a
	}
	return "(ite " + c + " " + a + " " + b + ")"
}

// mangle produces an SMT-LIB quoted symbol for arbitrary text.
func sym(s string) string {
	simple := true
	for _, r := range s {
		if !(r >= 'a' && r <= 'z' || r >= 'A' && r <= 'Z' || r >= '0' && r <= '9' || r == '_' || r == '.' || r == '!' || r == '$' || r == '-') {
			simple = false
			break
		}
	}
	if simple && s != "" && !(s[0] >= '0' && s[0] <= '9') {
		return s
	}
	s = strings.ReplaceAll(s, "|", "¦")
	s = strings.ReplaceAll(s, "\\", "/")
	return "|" + s + "|"
}

// ArrKind describes a versioned state component.
type ArrKind struct {
	Key  string
	Sort string // full SMT sort of the state component
	Idx  Sort   // index sort of outermost array (if array)
	Val  Sort   // value sort (for simple arrays)
	Nest bool   // (Array Int (Array K V)) (maps)
	Kidx Sort   // inner index sort for maps
	Flat bool   // not an array (ghost variable / global)
}

// VC accumulates declarations, facts and obligations for one function under
// verification.
type VC struct {
	decls     []string
	declared  map[string]bool
	facts     []string
	obls      []*Obligation
	strlits   map[string]string
	strorder  []string
	warnings  []string
	n         int
	kinds     map[string]*ArrKind
	typeTags  map[string]int
	tagOrder  []string
	usedSpecs map[string]bool
	havocLog  []string // callees whose effect was havoc-everything
	litNames  map[string]string
	verHW     map[string]string // heap version -> allocation mark when it was created
	baseHW    map[string]string
	dropFacts map[int]bool // facts of failed obligations (excluded from cover queries)
}

type Obligation struct {
	Name   string
	Kind   string // pre post inv-init inv-step iter assert safe decreases const vacuity
	Sub    string // for safe: nil, index, overflow, typeassert, div, mapnil
	Guard  string
	Goal   string
	NFacts int
	Pos    string
	Desc   string
	Tags   []string
	Func   string
	// results
	Status    string // unsat sat unknown timeout error
	Solver    string
	TimeS     float64
	Model     string
	Expect    string            // "unsat" normally; "sat" for cover/vacuity obligations
	Known     bool              // listed in known_findings.txt
	AssumeIdx int               // index of the fact that assumes this obligation after it was checked (-1: none)
	Approx    bool              // Model comes from the quantifier-free part only
	Witness   map[string]string // source-level names used by the goal -> SMT terms
	PairOf    string            // call-return cover: name of the cover taken just before the call
}

func newVC() *VC {
	return &VC{declared: map[string]bool{}, strlits: map[string]string{}, kinds: map[string]*ArrKind{}, typeTags: map[string]int{}, usedSpecs: map[string]bool{}, verHW: map[string]string{}, baseHW: map[string]string{"0": "hw!0"}}
}

func (vc *VC) fresh(base string) string {
	vc.n++
	return fmt.Sprintf("%s!%d", base, vc.n)
}

func (vc *VC) declConst(name string, sort string) {
	if vc.declared[name] {
		return
	}
	vc.declared[name] = true
	vc.decls = append(vc.decls, fmt.Sprintf("(declare-const %s %s)", sym(name), sort))
}

func (vc *VC) declFun(name string, args []string, res string) {
	if vc.declared[name] {
		return
	}
	vc.declared[name] = true
	vc.decls = append(vc.decls, fmt.Sprintf("(declare-fun %s (%s) %s)", sym(name), strings.Join(args, " "), res))
}

func (vc *VC) freshConst(base string, so Sort) Term {
	n := vc.fresh(base)
	vc.declConst(n, so.String())
	return Term{sym(n), so}
}

func (vc *VC) fact(f string) {
	if f == "true" || f == "" {
		return
	}
	vc.facts = append(vc.facts, f)
}

func (vc *VC) warn(format string, a ...interface{}) {
	w := fmt.Sprintf(format, a...)
	for _, x := range vc.warnings {
		if x == w {
			return
		}
	}
	vc.warnings = append(vc.warnings, w)
}

func canonType(t types.Type) types.Type {
	t = types.Unalias(t)
	if p, ok := t.(*types.Pointer); ok {
		return types.NewPointer(canonType(p.Elem()))
	}
	return t
}

func (vc *VC) typeTag(t types.Type) string {
	k := types.TypeString(canonType(t), nil)
	if id, ok := vc.typeTags[k]; ok {
		return fmt.Sprint(id)
	}
	id := len(vc.typeTags) + 1
	vc.typeTags[k] = id
	vc.tagOrder = append(vc.tagOrder, k)
	return fmt.Sprint(id)
}

// strLit returns the SMT constant for a Go string literal.
func (vc *VC) strLit(s string) Term {
	if s == "" {
		return Term{"str_empty", SV}
	}
	if n, ok := vc.strlits[s]; ok {
		return Term{n, SV}
	}
	name := sym(fmt.Sprintf("str!%d!%s", len(vc.strlits), abbreviate(s)))
	if vc.litNames != nil {
		if n, ok := vc.litNames[s]; ok {
			name = n
		}
	}
	vc.strlits[s] = name
	vc.strorder = append(vc.strorder, s)
	return Term{name, SV}
}

func abbreviate(s string) string {
	var b strings.Builder
	for i, r := range s {
		if i >= 24 {
			b.WriteString("..")
			break
		}
		if r >= 'a' && r <= 'z' || r >= 'A' && r <= 'Z' || r >= '0' && r <= '9' || r == '.' || r == '-' || r == '_' || r == '=' || r == '/' || r == ':' {
			b.WriteRune(r)
		} else {
			fmt.Fprintf(&b, "x%02x", r)
		}
	}
	return b.String()
}

// strLitFacts emits the concrete facts about all literals: lengths,
// distinctness, and the truth value of contains/hasprefix/hassuffix between
// every pair of literals, plus per-byte facts used by the prelude (count of
// LF etc).
func (vc *VC) strLitDecls() []string {
	var out []string
	for _, s := range vc.strorder {
		out = append(out, fmt.Sprintf("(declare-const %s V)", vc.strlits[s]))
	}
	return out
}

func (vc *VC) strLitFacts() []string {
	var out []string
	var names []string
	lits := append([]string{}, vc.strorder...)
	for _, s := range lits {
		n := vc.strlits[s]
		names = append(names, n)
	}
	for _, s := range lits {
		n := vc.strlits[s]
		out = append(out, fmt.Sprintf("(assert (= (blen %s) %d))", n, len(s)))
		if l, ok := vc.litIfKnown(strings.ToLower(s)); ok {
			out = append(out, fmt.Sprintf("(assert (= (str_lower %s) %s))", n, l))
		}
		if l, ok := vc.litIfKnown(textproto.CanonicalMIMEHeaderKey(s)); ok {
			out = append(out, fmt.Sprintf("(assert (= (str_canon %s) %s))", n, l))
		}
		if l, ok := vc.litIfKnown(strings.TrimSpace(s)); ok {
			out = append(out, fmt.Sprintf("(assert (= (str_trim %s) %s))", n, l))
		}
	}
	if len(names) > 0 {
		out = append(out, "(assert (distinct str_empty "+strings.Join(names, " ")+"))")
	}
	all := append([]string{""}, lits...)
	nameOf := func(s string) string {
		if s == "" {
			return "str_empty"
		}
		return vc.strlits[s]
	}
	for _, a := range all {
		for _, b := range all {
			if a == "" && b == "" {
				continue
			}
			tv := func(x bool) string {
				if x {
					return "true"
				}
				return "false"
			}
			out = append(out, fmt.Sprintf("(assert (= (str_contains %s %s) %s))", nameOf(a), nameOf(b), tv(strings.Contains(a, b))))
			out = append(out, fmt.Sprintf("(assert (= (str_hasprefix %s %s) %s))", nameOf(a), nameOf(b), tv(strings.HasPrefix(a, b))))
			out = append(out, fmt.Sprintf("(assert (= (str_hassuffix %s %s) %s))", nameOf(a), nameOf(b), tv(strings.HasSuffix(a, b))))
		}
	}
	return out
}

func (vc *VC) litIfKnown(s string) (string, bool) {
	if s == "" {
		return "str_empty", true
	}
	n, ok := vc.strlits[s]
	return n, ok
}

func sortedKeys(m map[string]bool) []string {
	var ks []string
	for k := range m {
		ks = append(ks, k)
	}
	sort.Strings(ks)
	return ks
}
