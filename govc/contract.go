package main

import (
	"bufio"
	"fmt"
	"go/ast"
	"go/parser"
	"os"
	"path/filepath"
	"regexp"
	"strconv"
	"strings"
)

type Clause struct {
	Kind   string // requires ensures invariant iter assert decreases
	Tags   []string
	Text   string
	Expr   ast.Expr
	Loop   int
	Anchor string
	Src    string
}

type ModSpec struct {
	Kind string // ghost, ghostat, field, cell, bytes, heap, all
	Name string
	Text string
	Expr ast.Expr
	Key  ast.Expr
	Fld  string
	Var  string   // bound key variable of a region ("ghost g[q | pred]")
	Cond ast.Expr // "ghost g[k] when cond": the key is written only if cond holds
}

type Contract struct {
	Key        string
	Trusted    bool // assumed, not verified (external or environment)
	Pure       bool
	Inline     bool // only loop annotations; body is inlined at call sites
	NoEffect   bool
	Params     []string
	Requires   []Clause
	Ensures    []Clause
	Mods       []ModSpec
	HasMods    bool
	Loops      map[int][]Clause
	Asserts    []Clause
	Decreases  *Clause
	Decreases2 *Clause // second component of a lexicographic measure
	Src        string
	NoVerify   bool // repo contract assumed but body not verified (listed in evidence)
	Props      []string
	RecGroup   string
	Monitors   []Monitor
	Invokes    []Invoke // "invokes f when cond": the callee calls its function argument f (once) iff cond
	Dead       []string // program points that are unreachable by design (e.g. under a trusted spec)
	Forbid     []string // callees that must not be called (directly or in inlined code)
}

type Invoke struct {
	Param string
	Cond  ast.Expr
	Text  string
}

type Monitor struct {
	Ghost string
	Key   ast.Expr
	Val   ast.Expr
	Text  string
}

type GhostDecl struct {
	Book bool // bookkeeping: specification-only counter/record, changed only by contracts that list it
	Name string
	Key  *Sort // nil: plain variable
	Val  Sort
}

type ContractDB struct {
	ByKey    map[string]*Contract
	Ghosts   map[string]*GhostDecl
	GhostOrd []string
	SpecFns  map[string]*SpecFn
	PurePkgs map[string]bool
	NoEffect map[string]bool
	Prelude  []string          // raw smt2 text chunks
	LitNames map[string]string // string literal -> prelude constant name
	LitOrder []string
	Files    []string
}

type SpecFn struct {
	Name string
	Args []Sort
	Res  Sort
}

func newContractDB() *ContractDB {
	return &ContractDB{ByKey: map[string]*Contract{}, Ghosts: map[string]*GhostDecl{}, SpecFns: map[string]*SpecFn{}, PurePkgs: map[string]bool{}, NoEffect: map[string]bool{}, LitNames: map[string]string{}}
}

var declFunRE = regexp.MustCompile(`^\(declare-fun\s+(\S+)\s+\(([^)]*)\)\s+(\S+)\)`)
var defFunRE = regexp.MustCompile(`^\(define-fun(?:-rec)?\s+(\S+)\s+\(((?:\([^)]*\)\s*)*)\)\s+(\S+)`)

func (db *ContractDB) loadPrelude(path string) error {
	b, err := os.ReadFile(path)
	if err != nil {
		return err
	}
	db.Prelude = append(db.Prelude, string(b))
	db.Files = append(db.Files, path)
	for _, line := range strings.Split(string(b), "\n") {
		line = strings.TrimSpace(line)
		if strings.HasPrefix(line, "; strlit ") {
			f := strings.SplitN(strings.TrimPrefix(line, "; strlit "), " ", 2)
			if len(f) == 2 {
				if lit, err := strconv.Unquote(strings.TrimSpace(f[1])); err == nil {
					if _, dup := db.LitNames[lit]; !dup {
						db.LitNames[lit] = f[0]
						db.LitOrder = append(db.LitOrder, lit)
						db.SpecFns[f[0]] = &SpecFn{Name: f[0], Res: SV}
					}
				}
			}
			continue
		}
		if m := declFunRE.FindStringSubmatch(line); m != nil {
			sf := &SpecFn{Name: m[1]}
			ok := true
			for _, a := range strings.Fields(m[2]) {
				s, k := parseSort(a)
				if !k {
					ok = false
				}
				sf.Args = append(sf.Args, s)
			}
			r, k := parseSort(m[3])
			if !k || !ok {
				continue
			}
			sf.Res = r
			db.SpecFns[sf.Name] = sf
		} else if m := defFunRE.FindStringSubmatch(line); m != nil {
			sf := &SpecFn{Name: m[1]}
			ok := true
			for _, a := range regexp.MustCompile(`\(\s*\S+\s+(\S+)\s*\)`).FindAllStringSubmatch(m[2], -1) {
				s, k := parseSort(a[1])
				if !k {
					ok = false
				}
				sf.Args = append(sf.Args, s)
			}
			r, k := parseSort(m[3])
			if !k || !ok {
				continue
			}
			sf.Res = r
			db.SpecFns[sf.Name] = sf
		} else if strings.HasPrefix(line, "(declare-const ") {
			f := strings.Fields(strings.TrimSuffix(line, ")"))
			if len(f) == 3 {
				if s, k := parseSort(f[2]); k {
					db.SpecFns[f[1]] = &SpecFn{Name: f[1], Res: s}
				}
			}
		}
	}
	return nil
}

// loadFile parses a contract/spec file.  pkgPath != "" means a repository
// contract file: short function names are qualified with it.
func (db *ContractDB) loadFile(path, pkgPath string) error {
	f, err := os.Open(path)
	if err != nil {
		return err
	}
	defer f.Close()
	db.Files = append(db.Files, path)
	sc := bufio.NewScanner(f)
	sc.Buffer(make([]byte, 1<<20), 1<<20)
	var cur *Contract
	ln := 0
	var pending string
	for sc.Scan() {
		ln++
		raw := sc.Text()
		line := strings.TrimSpace(raw)
		if pkgPath != "" {
			if !strings.HasPrefix(line, "//@") {
				continue
			}
			line = strings.TrimSpace(strings.TrimPrefix(line, "//@"))
		} else {
			line = strings.TrimSpace(strings.TrimPrefix(line, "//@"))
		}
		if line == "" || strings.HasPrefix(line, "#") {
			continue
		}
		if i := strings.Index(line, "  //"); i >= 0 {
			line = strings.TrimSpace(line[:i])
		}
		// line continuation with trailing backslash
		if strings.HasSuffix(line, "\\") {
			pending += strings.TrimSuffix(line, "\\") + " "
			continue
		}
		line = pending + line
		pending = ""
		src := fmt.Sprintf("%s:%d", path, ln)
		word, rest := splitWord(line)
		switch word {
		case "ghost":
			book := false
			if strings.HasSuffix(rest, " book") {
				book = true
				rest = strings.TrimSpace(strings.TrimSuffix(rest, " book"))
			}
			m := regexp.MustCompile(`^(\w+)\(\s*(\w*)\s*\)\s+(\w+)$`).FindStringSubmatch(rest)
			if m == nil {
				return fmt.Errorf("%s: bad ghost decl", src)
			}
			g := &GhostDecl{Name: m[1], Book: book}
			if m[2] != "" {
				s, ok := parseSort(m[2])
				if !ok {
					return fmt.Errorf("%s: bad sort", src)
				}
				g.Key = &s
			}
			s, ok := parseSort(m[3])
			if !ok {
				return fmt.Errorf("%s: bad sort", src)
			}
			g.Val = s
			if _, dup := db.Ghosts[g.Name]; !dup {
				db.GhostOrd = append(db.GhostOrd, g.Name)
			}
			db.Ghosts[g.Name] = g
			cur = nil
		case "opaque":
			for _, p := range strings.Fields(rest) {
				opaqueTypes[p] = true
			}
			cur = nil
		case "purepkg":
			for _, p := range strings.Fields(rest) {
				db.PurePkgs[p] = true
			}
			cur = nil
		case "noeffectfn":
			for _, p := range strings.Fields(rest) {
				db.NoEffect[p] = true
			}
			cur = nil
		case "func", "iface":
			key := strings.TrimSpace(rest)
			if pkgPath != "" {
				key = qualifyKey(key, pkgPath)
			}
			if old, dup := db.ByKey[key]; dup {
				return fmt.Errorf("%s: duplicate contract for %s (first at %s)", src, key, old.Src)
			}
			cur = &Contract{Key: key, Loops: map[int][]Clause{}, Src: src}
			if pkgPath == "" || word == "iface" {
				cur.Trusted = true
			}
			db.ByKey[key] = cur
		default:
			if cur == nil {
				return fmt.Errorf("%s: clause outside func: %s", src, line)
			}
			if err := parseClause(cur, word, rest, src); err != nil {
				return fmt.Errorf("%s: %v", src, err)
			}
		}
	}
	return sc.Err()
}

func qualifyKey(key, pkgPath string) string {
	// "(T).m" / "(*T).m" / "f" / "f$1"  -> fully qualified like ssa.Function.String()
	if strings.Contains(key, "/") || strings.Contains(key, pkgPath) {
		return key
	}
	if strings.HasPrefix(key, "(*") {
		return "(*" + pkgPath + "." + key[2:]
	}
	if strings.HasPrefix(key, "(") {
		return "(" + pkgPath + "." + key[1:]
	}
	return pkgPath + "." + key
}

func splitWord(s string) (string, string) {
	s = strings.TrimSpace(s)
	i := strings.IndexAny(s, " \t")
	if i < 0 {
		return s, ""
	}
	return s[:i], strings.TrimSpace(s[i+1:])
}

func splitTags(s string) ([]string, string) {
	var tags []string
	for {
		s = strings.TrimSpace(s)
		if !strings.HasPrefix(s, "@") {
			return tags, s
		}
		w, r := splitWord(s)
		tags = append(tags, strings.TrimPrefix(w, "@"))
		s = r
	}
}

func parseClause(c *Contract, word, rest, src string) error {
	mk := func(kind, text string) (Clause, error) {
		tags, body := splitTags(text)
		e, err := parseSpecExpr(body)
		if err != nil {
			return Clause{}, fmt.Errorf("parse %q: %v", body, err)
		}
		return Clause{Kind: kind, Tags: tags, Text: body, Expr: e, Src: src}, nil
	}
	switch word {
	case "trusted":
		c.Trusted = true
	case "assumed":
		c.NoVerify = true
	case "pure":
		c.Pure = true
		c.HasMods = true
	case "inline":
		c.Inline = true
	case "noeffect":
		c.NoEffect = true
		c.Pure = true
		c.HasMods = true
	case "params":
		c.Params = strings.Fields(rest)
	case "props":
		c.Props = strings.Fields(rest)
	case "recgroup":
		c.RecGroup = strings.TrimSpace(rest)
	case "invokes":
		// invokes f when cond
		name, r := splitWord(rest)
		inv := Invoke{Param: name, Text: rest}
		r = strings.TrimSpace(r)
		if strings.HasPrefix(r, "when ") {
			e, err := parseSpecExpr(strings.TrimSpace(r[5:]))
			if err != nil {
				return err
			}
			inv.Cond = e
		}
		c.Invokes = append(c.Invokes, inv)
	case "monitor":
		// monitor g[k] := expr   -- a specification-only record of what the call concluded
		i := strings.Index(rest, ":=")
		if i < 0 {
			return fmt.Errorf("bad monitor clause")
		}
		lhs := strings.TrimSpace(rest[:i])
		j := strings.IndexByte(lhs, '[')
		if j < 0 || !strings.HasSuffix(lhs, "]") {
			return fmt.Errorf("bad monitor target")
		}
		k, err := parseSpecExpr(lhs[j+1 : len(lhs)-1])
		if err != nil {
			return err
		}
		v, err := parseSpecExpr(rest[i+2:])
		if err != nil {
			return err
		}
		c.Monitors = append(c.Monitors, Monitor{Ghost: strings.TrimSpace(lhs[:j]), Key: k, Val: v, Text: rest})
	case "dead":
		c.Dead = append(c.Dead, strings.TrimSpace(rest))
	case "forbid":
		c.Forbid = append(c.Forbid, strings.TrimSpace(rest))
	case "requires":
		cl, err := mk("requires", rest)
		if err != nil {
			return err
		}
		c.Requires = append(c.Requires, cl)
	case "ensures":
		cl, err := mk("ensures", rest)
		if err != nil {
			return err
		}
		c.Ensures = append(c.Ensures, cl)
	case "decreases":
		parts := splitTop(rest, ',')
		cl, err := mk("decreases", parts[0])
		if err != nil {
			return err
		}
		c.Decreases = &cl
		if len(parts) > 1 {
			cl2, err := mk("decreases", parts[1])
			if err != nil {
				return err
			}
			c.Decreases2 = &cl2
		}
	case "modifies":
		c.HasMods = true
		for _, part := range splitTop(rest, ',') {
			part = strings.TrimSpace(part)
			if part == "" || part == "nothing" {
				continue
			}
			ms, err := parseModSpec(part)
			if err != nil {
				return err
			}
			c.Mods = append(c.Mods, ms)
		}
	case "loop":
		nstr, r := splitWord(rest)
		n, err := strconv.Atoi(nstr)
		if err != nil {
			return fmt.Errorf("bad loop ordinal %q", nstr)
		}
		k, r2 := splitWord(r)
		switch k {
		case "invariant", "iter", "decreases":
			cl, err := mk(k, r2)
			if err != nil {
				return err
			}
			cl.Loop = n
			c.Loops[n] = append(c.Loops[n], cl)
		default:
			return fmt.Errorf("bad loop clause %q", k)
		}
	case "at":
		// at <anchor> assert <expr>
		i := strings.Index(rest, " assert ")
		if i < 0 {
			return fmt.Errorf("bad at clause")
		}
		cl, err := mk("assert", rest[i+8:])
		if err != nil {
			return err
		}
		cl.Anchor = strings.TrimSpace(rest[:i])
		c.Asserts = append(c.Asserts, cl)
	default:
		return fmt.Errorf("unknown clause %q", word)
	}
	return nil
}

func parseModSpec(s string) (ModSpec, error) {
	w, r := splitWord(s)
	switch w {
	case "heap", "all", "fresh", "everything":
		return ModSpec{Kind: w}, nil
	case "ghost":
		var cond ast.Expr
		if j := strings.Index(r, " when "); j >= 0 {
			c, err := parseSpecExpr(r[j+6:])
			if err != nil {
				return ModSpec{}, err
			}
			cond = c
			r = strings.TrimSpace(r[:j])
		}
		if i := strings.IndexByte(r, '['); i >= 0 && strings.HasSuffix(r, "]") {
			if j := strings.Index(r, " | "); j > i {
				// region: ghost g[q | pred(q)] -- any key satisfying the predicate
				e, err := parseSpecExpr(r[j+3 : len(r)-1])
				if err != nil {
					return ModSpec{}, err
				}
				return ModSpec{Kind: "ghostwhere", Name: strings.TrimSpace(r[:i]), Var: strings.TrimSpace(r[i+1 : j]), Expr: e, Text: s}, nil
			}
			e, err := parseSpecExpr(r[i+1 : len(r)-1])
			if err != nil {
				return ModSpec{}, err
			}
			return ModSpec{Kind: "ghostat", Name: strings.TrimSpace(r[:i]), Expr: e, Text: s, Cond: cond}, nil
		}
		return ModSpec{Kind: "ghost", Name: r, Text: s}, nil
	case "field":
		i := strings.LastIndexByte(r, '.')
		if i < 0 {
			return ModSpec{}, fmt.Errorf("bad field modspec %q", s)
		}
		e, err := parseSpecExpr(r[:i])
		if err != nil {
			return ModSpec{}, err
		}
		return ModSpec{Kind: "field", Expr: e, Fld: r[i+1:], Text: s}, nil
	case "cell", "bytes", "fields", "map":
		e, err := parseSpecExpr(r)
		if err != nil {
			return ModSpec{}, err
		}
		return ModSpec{Kind: w, Expr: e, Text: s}, nil
	case "key":
		return ModSpec{Kind: "key", Name: r, Text: s}, nil
	case "captured":
		return ModSpec{Kind: "captured", Name: strings.TrimSpace(r), Text: s}, nil
	case "mapkey":
		// mapkey m[k]
		i := strings.IndexByte(r, '[')
		if i < 0 || !strings.HasSuffix(r, "]") {
			return ModSpec{}, fmt.Errorf("bad mapkey modspec %q", s)
		}
		e, err := parseSpecExpr(r[:i])
		if err != nil {
			return ModSpec{}, err
		}
		k, err := parseSpecExpr(r[i+1 : len(r)-1])
		if err != nil {
			return ModSpec{}, err
		}
		return ModSpec{Kind: "mapkey", Expr: e, Key: k, Text: s}, nil
	}
	return ModSpec{}, fmt.Errorf("bad modifies item %q", s)
}

// splitTop splits at top-level occurrences of sep (outside parens, brackets,
// quotes).
func splitTop(s string, sep byte) []string {
	var out []string
	d := 0
	start := 0
	for i := 0; i < len(s); i++ {
		switch s[i] {
		case '(', '[', '{':
			d++
		case ')', ']', '}':
			d--
		case '"':
			for i++; i < len(s) && s[i] != '"'; i++ {
				if s[i] == '\\' {
					i++
				}
			}
		case '`':
			for i++; i < len(s) && s[i] != '`'; i++ {
			}
		default:
			if s[i] == sep && d == 0 {
				out = append(out, s[start:i])
				start = i + 1
			}
		}
	}
	return append(out, s[start:])
}

// desugar rewrites "a ==> b" into implies__(a, b) and "a <==> b" into
// iff__(a, b), recursively inside parentheses, so the result is parsable as a
// Go expression.
func desugar(s string) string {
	// find top-level operators
	d := 0
	for i := 0; i < len(s); i++ {
		switch s[i] {
		case '(', '[', '{':
			d++
		case ')', ']', '}':
			d--
		case '"':
			for i++; i < len(s) && s[i] != '"'; i++ {
				if s[i] == '\\' {
					i++
				}
			}
		case '`':
			for i++; i < len(s) && s[i] != '`'; i++ {
			}
		case '<':
			if d == 0 && strings.HasPrefix(s[i:], "<==>") {
				return "iff__(" + desugar(s[:i]) + ", " + desugar(s[i+4:]) + ")"
			}
		}
	}
	d = 0
	for i := 0; i < len(s); i++ {
		switch s[i] {
		case '(', '[', '{':
			d++
		case ')', ']', '}':
			d--
		case '"':
			for i++; i < len(s) && s[i] != '"'; i++ {
				if s[i] == '\\' {
					i++
				}
			}
		case '`':
			for i++; i < len(s) && s[i] != '`'; i++ {
			}
		case '=':
			if d == 0 && strings.HasPrefix(s[i:], "==>") {
				return "implies__(" + desugar(s[:i]) + ", " + desugar(s[i+3:]) + ")"
			}
		}
	}
	// recurse into groups
	var b strings.Builder
	for i := 0; i < len(s); i++ {
		c := s[i]
		switch c {
		case '"':
			j := i + 1
			for ; j < len(s) && s[j] != '"'; j++ {
				if s[j] == '\\' {
					j++
				}
			}
			b.WriteString(s[i:min(j+1, len(s))])
			i = j
		case '`':
			j := i + 1
			for ; j < len(s) && s[j] != '`'; j++ {
			}
			b.WriteString(s[i:min(j+1, len(s))])
			i = j
		case '(', '[':
			// find matching
			d := 0
			j := i
			for ; j < len(s); j++ {
				if s[j] == '"' {
					for j++; j < len(s) && s[j] != '"'; j++ {
						if s[j] == '\\' {
							j++
						}
					}
					continue
				}
				if s[j] == '(' || s[j] == '[' {
					d++
				} else if s[j] == ')' || s[j] == ']' {
					d--
					if d == 0 {
						break
					}
				}
			}
			if j >= len(s) {
				b.WriteString(s[i:])
				return b.String()
			}
			inner := s[i+1 : j]
			parts := splitTop(inner, ',')
			for k := range parts {
				parts[k] = desugar(parts[k])
			}
			b.WriteByte(c)
			b.WriteString(strings.Join(parts, ","))
			b.WriteByte(s[j])
			i = j
		default:
			b.WriteByte(c)
		}
	}
	return b.String()
}

func parseSpecExpr(s string) (ast.Expr, error) {
	return parser.ParseExpr(desugar(s))
}

// loadAll loads the prelude, the trusted specs in specDir, and every
// verif_contracts.go under repoDir.
func loadAllContracts(specDir, repoDir, modPath string) (*ContractDB, error) {
	db := newContractDB()
	pre, _ := filepath.Glob(filepath.Join(specDir, "*.smt2"))
	for _, p := range pre {
		if err := db.loadPrelude(p); err != nil {
			return nil, err
		}
	}
	specs, _ := filepath.Glob(filepath.Join(specDir, "*.spec"))
	for _, p := range specs {
		if err := db.loadFile(p, ""); err != nil {
			return nil, err
		}
	}
	err := filepath.Walk(repoDir, func(p string, info os.FileInfo, err error) error {
		if err != nil {
			return nil
		}
		if info.IsDir() {
			n := info.Name()
			if p != repoDir && (strings.HasPrefix(n, ".") || n == "vendor" || n == "t" || n == "docs") {
				return filepath.SkipDir
			}
			return nil
		}
		if info.Name() != "verif_contracts.go" {
			return nil
		}
		rel, _ := filepath.Rel(repoDir, filepath.Dir(p))
		pkg := modPath
		if rel != "." {
			pkg = modPath + "/" + filepath.ToSlash(rel)
		}
		return db.loadFile(p, pkg)
	})
	return db, err
}
