package main

import (
	"go/types"
	"sort"
	"strings"
)

// errclassCheck: the contracts of the transfer queue treat "retriable" and
// "retriable later" (errors.IsRetriableError / IsRetriableLaterError) as two
// classes an error is put into where it is created; the code that tests
// "retriable" before "retriable later" (the batch-error arm of
// enqueueAndCollectRetriesFor) is only right while no error type answers to
// both.  Both tests are duck-typed on a marker method, so this is decided from
// go/types on every run: no type of package errors has both marker methods.
func errclassCheck(w *World, cfg *solveCfg) []*Obligation {
	ob := &Obligation{Name: "errors#static@retry-marker-methods-disjoint", Kind: "const", Expect: "unsat",
		Solver: "go/types method sets",
		Desc:   "no error type implements both RetriableError() and RetriableLaterError(): an error the server deferred with Retry-After is never taken for a plainly retriable one"}
	var both []string
	seen := 0
	for _, p := range w.prog.AllPackages() {
		if p.Pkg.Path() != "github.com/git-lfs/git-lfs/v3/errors" {
			continue
		}
		sc := p.Pkg.Scope()
		for _, n := range sc.Names() {
			tn, ok := sc.Lookup(n).(*types.TypeName)
			if !ok {
				continue
			}
			has := func(m string) bool {
				for _, t := range []types.Type{tn.Type(), types.NewPointer(tn.Type())} {
					ms := types.NewMethodSet(t)
					for i := 0; i < ms.Len(); i++ {
						if ms.At(i).Obj().Name() == m {
							return true
						}
					}
				}
				return false
			}
			a, b := has("RetriableError"), has("RetriableLaterError")
			if a || b {
				seen++
			}
			if a && b {
				both = append(both, tn.Name())
			}
		}
	}
	sort.Strings(both)
	switch {
	case seen < 2:
		ob.Status = "fail"
		ob.Model = "the marker types were not found in package errors (renamed?): the check has nothing to decide"
	case len(both) > 0:
		ob.Status = "fail"
		ob.Model = "types with both marker methods: " + strings.Join(both, ", ")
	default:
		ob.Status = "ok"
	}
	return []*Obligation{ob}
}

func init() {
	extraChecks["errclass"] = errclassCheck
}
