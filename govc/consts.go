package main

import (
	"fmt"
	"go/constant"
	"go/token"
	"go/types"
	"strings"

	"golang.org/x/tools/go/ssa"
)

// constInfo recognises package-level variables that are effectively constant:
// initialised once in the package initialiser and never stored to (nor their
// address taken) by any function of the repository.  Loads of such variables
// yield a canonical term plus facts derived from the initialiser.
type constInfo struct {
	e       *encoder
	repoFns []*ssa.Function
	status  map[*ssa.Global]*globalConst
}

type globalConst struct {
	constant bool
	reason   string
	initVal  ssa.Value
	emitted  bool
	external bool
	term     Term
}

func (ci *constInfo) analyse(g *ssa.Global) *globalConst {
	if gc, ok := ci.status[g]; ok {
		return gc
	}
	gc := &globalConst{}
	ci.status[g] = gc
	var stores []*ssa.Store
	ok := true
	for _, fn := range ci.repoFns {
		for _, b := range fn.Blocks {
			for _, ins := range b.Instrs {
				for _, op := range ins.Operands(nil) {
					if *op != ssa.Value(g) {
						continue
					}
					switch x := ins.(type) {
					case *ssa.UnOp:
						if x.Op != token.MUL {
							ok = false
							gc.reason = "used by " + fn.String()
						}
					case *ssa.Store:
						if x.Addr == ssa.Value(g) && x.Val != ssa.Value(g) {
							if fn.Name() == "init" && fn.Pkg == g.Pkg && fn.Parent() == nil {
								stores = append(stores, x)
							} else {
								ok = false
								gc.reason = "assigned in " + fn.String()
							}
						} else {
							ok = false
							gc.reason = "address stored in " + fn.String()
						}
					case *ssa.DebugRef:
					default:
						ok = false
						gc.reason = fmt.Sprintf("address used by %T in %s", ins, fn.String())
					}
				}
			}
		}
	}
	external := !strings.HasPrefix(g.Pkg.Pkg.Path(), ci.e.modPath)
	if external {
		// initialiser lives in the defining package's init function
		if initFn := g.Pkg.Func("init"); initFn != nil {
			for _, b := range initFn.Blocks {
				for _, ins := range b.Instrs {
					if st, isStore := ins.(*ssa.Store); isStore && st.Addr == ssa.Value(g) {
						stores = append(stores, st)
					}
				}
			}
		}
		gc.external = true
	}
	if !ok || len(stores) > 1 {
		if gc.reason == "" {
			gc.reason = "multiple initialising stores"
		}
		return gc
	}
	gc.constant = true
	if len(stores) == 1 {
		gc.initVal = stores[0].Val
	}
	return gc
}

// valueOf returns the canonical value of a constant global.
func (ci *constInfo) valueOf(fr *frame, g *ssa.Global) (Term, bool) {
	gc := ci.analyse(g)
	if !gc.constant {
		return Term{}, false
	}
	vc := ci.e.vc
	et := deref(g.Type())
	if isStruct(et) {
		return Term{}, false
	}
	if gc.emitted {
		return gc.term, true
	}
	gc.emitted = true
	name := "gconst!" + g.Pkg.Pkg.Path() + "." + g.Name()
	so := sortOf(et)
	vc.declConst(name, so.String())
	gc.term = Term{sym(name), so}
	vc.usedSpecs["const-global:"+g.Pkg.Pkg.Path()+"."+g.Name()] = true
	if gc.initVal == nil {
		if !gc.external {
			vc.fact(eq(gc.term.S, ci.e.zeroValue(et).S))
		}
		return gc.term, true
	}
	ci.describe(gc.term, gc.initVal, et)
	return gc.term, true
}

// describe emits facts about term from the initialiser expression (SSA value
// in the package init function).
func (ci *constInfo) describe(t Term, v ssa.Value, ty types.Type) {
	vc := ci.e.vc
	switch x := v.(type) {
	case *ssa.Const:
		if x.Value == nil {
			vc.fact(eq(t.S, ci.e.zeroValue(ty).S))
			return
		}
		switch x.Value.Kind() {
		case constant.String:
			vc.fact(eq(t.S, vc.strLit(constant.StringVal(x.Value)).S))
		case constant.Int:
			if t.Sort == SInt {
				n, _ := constant.Int64Val(x.Value)
				vc.fact(eq(t.S, smtInt(n)))
			}
		case constant.Bool:
			if constant.BoolVal(x.Value) {
				vc.fact(t.S)
			} else {
				vc.fact(not(t.S))
			}
		}
	case *ssa.Slice:
		// slice of a freshly allocated array literal
		alloc, ok := x.X.(*ssa.Alloc)
		if !ok {
			return
		}
		arr, ok := deref(alloc.Type()).Underlying().(*types.Array)
		if !ok {
			return
		}
		if x.Low != nil || x.High != nil {
			return
		}
		vc.fact(fmt.Sprintf("(and (= (sl_len %s) %d) (not (= %s vnil)))", t.S, arr.Len(), t.S))
		so := sortOf(arr.Elem())
		refs := alloc.Referrers()
		if refs == nil {
			return
		}
		for _, r := range *refs {
			ia, ok := r.(*ssa.IndexAddr)
			if !ok {
				continue
			}
			ic, ok := ia.Index.(*ssa.Const)
			if !ok || ic.Value == nil {
				continue
			}
			irefs := ia.Referrers()
			if irefs == nil {
				continue
			}
			for _, rr := range *irefs {
				st, ok := rr.(*ssa.Store)
				if !ok || st.Addr != ssa.Value(ia) {
					continue
				}
				el := Term{fmt.Sprintf("(%s %s %d)", atFn(so), t.S, ic.Int64()), so}
				if c, ok := st.Val.(*ssa.Const); ok {
					ci.describe(el, c, arr.Elem())
				}
			}
		}
	case *ssa.Call:
		if f := x.Common().StaticCallee(); f != nil {
			switch f.String() {
			case "errors.New", "fmt.Errorf":
				if t.Sort == SV {
					vc.fact(fmt.Sprintf("(not (= %s vnil))", t.S))
				}
			case "regexp.MustCompile":
				if c, ok := x.Common().Args[0].(*ssa.Const); ok && c.Value != nil {
					vc.fact(fmt.Sprintf("(and (not (= %s 0)) (= (re_src %s) %s))", t.S, t.S, vc.strLit(constant.StringVal(c.Value)).S))
				}
			}
		}
	case *ssa.MakeInterface, *ssa.Alloc, *ssa.MakeMap:
		if t.Sort == SInt {
			vc.fact(fmt.Sprintf("(not (= %s 0))", t.S))
		}
	}
}

func (e *encoder) collectRepoFns() []*ssa.Function {
	var out []*ssa.Function
	seen := map[*ssa.Function]bool{}
	var add func(f *ssa.Function)
	add = func(f *ssa.Function) {
		if f == nil || seen[f] {
			return
		}
		seen[f] = true
		out = append(out, f)
		for _, a := range f.AnonFuncs {
			add(a)
		}
	}
	for _, p := range e.prog.AllPackages() {
		if !strings.HasPrefix(p.Pkg.Path(), e.modPath) {
			continue
		}
		for _, m := range p.Members {
			switch x := m.(type) {
			case *ssa.Function:
				add(x)
			case *ssa.Type:
				for _, t := range []types.Type{x.Type(), types.NewPointer(x.Type())} {
					ms := e.prog.MethodSets.MethodSet(t)
					for i := 0; i < ms.Len(); i++ {
						add(e.prog.MethodValue(ms.At(i)))
					}
				}
			}
		}
	}
	return out
}
