package main

import (
	"bytes"
	"context"
	"fmt"
	"os"
	"os/exec"
	"path/filepath"
	"strings"
	"sync"
	"time"
)

type Solver struct {
	Name string
	Cmd  func(file string, timeoutS int, seed int) []string
}

var solvers = []Solver{
	{"z3-new-5.1.0", func(f string, t int, seed int) []string {
		return []string{"z3-new", fmt.Sprintf("-T:%d", t), fmt.Sprintf("smt.random_seed=%d", seed), fmt.Sprintf("sat.random_seed=%d", seed), f}
	}},
	{"z3-4.8.12", func(f string, t int, seed int) []string {
		return []string{"z3", fmt.Sprintf("-T:%d", t), fmt.Sprintf("smt.random_seed=%d", seed), f}
	}},
	{"cvc5-1.0", func(f string, t int, seed int) []string {
		return []string{"cvc5", fmt.Sprintf("--tlimit=%d", t*1000), fmt.Sprintf("--seed=%d", seed), f}
	}},
}

type solveCfg struct {
	dir      string
	timeoutS int
	seed     int
	allSolv  bool // require agreement of two solvers (thorough)
	workers  int
}

// queryText builds the SMT-LIB text for one obligation.
func (db *ContractDB) queryText(vc *VC, ob *Obligation, wantModel bool) string {
	return db.queryTextG(vc, ob, wantModel, ob.Kind == "vacuity")
}

// queryTextG: ground=true drops every quantified axiom (prelude and facts).
func (db *ContractDB) queryTextG(vc *VC, ob *Obligation, wantModel bool, ground bool) string {
	var b strings.Builder
	b.WriteString("; obligation " + ob.Name + "\n; " + ob.Desc + "\n")
	if wantModel {
		b.WriteString("(set-option :produce-models true)\n")
	}
	b.WriteString("(set-logic ALL)\n(declare-sort V 0)\n")
	for _, l := range vc.strLitDecls() {
		b.WriteString(l)
		b.WriteString("\n")
	}
	for _, p := range db.Prelude {
		if ground {
			// cover queries must be answered "sat": keep declarations and ground
			// facts only, so the solver is not asked to build a model of the
			// quantified axioms (which it cannot do in general)
			for _, l := range strings.Split(p, "\n") {
				if strings.HasPrefix(l, "(assert (forall") {
					continue
				}
				b.WriteString(l)
				b.WriteString("\n")
			}
			continue
		}
		b.WriteString(p)
		b.WriteString("\n")
	}
	for _, l := range vc.strLitFacts() {
		b.WriteString(l)
		b.WriteString("\n")
	}
	for _, d := range vc.decls {
		b.WriteString(d)
		b.WriteString("\n")
	}
	n := ob.NFacts
	if n > len(vc.facts) {
		n = len(vc.facts)
	}
	for i, f := range vc.facts[:n] {
		if ground && strings.HasPrefix(f, "(forall") {
			continue
		}
		if ob.Kind == "vacuity" && vc.dropFacts[i] {
			continue
		}
		b.WriteString("(assert ")
		b.WriteString(f)
		b.WriteString(")\n")
	}
	b.WriteString("(assert " + ob.Guard + ")\n")
	b.WriteString("(assert " + not(ob.Goal) + ")\n")
	b.WriteString("(check-sat)\n")
	if wantModel {
		b.WriteString("(get-model)\n")
	}
	return b.String()
}

func runSolver(s Solver, file string, timeoutS, seed int) (status string, out string, dur float64) {
	args := s.Cmd(file, timeoutS, seed)
	ctx, cancel := context.WithTimeout(context.Background(), time.Duration(timeoutS+5)*time.Second)
	defer cancel()
	cmd := exec.CommandContext(ctx, args[0], args[1:]...)
	var buf bytes.Buffer
	cmd.Stdout = &buf
	cmd.Stderr = &buf
	t0 := time.Now()
	runErr := cmd.Run()
	dur = time.Since(t0).Seconds()
	out = buf.String()
	if strings.TrimSpace(out) == "" && runErr != nil {
		out = "(no output) exec: " + runErr.Error()
	}
	first := strings.TrimSpace(strings.SplitN(out, "\n", 2)[0])
	switch first {
	case "unsat", "sat", "unknown":
		return first, out, dur
	case "timeout":
		return "timeout", out, dur
	}
	if ctx.Err() != nil {
		return "timeout", out, dur
	}
	if strings.Contains(out, "timeout") {
		return "timeout", out, dur
	}
	return "error", out, dur
}

// discharge decides one obligation with the solver portfolio.
func (db *ContractDB) discharge(vc *VC, ob *Obligation, cfg *solveCfg) {
	db.discharge1(vc, ob, cfg)
	if ob.Status == "error" && !strings.HasPrefix(ob.Model, "solver disagreement") {
		// no solver of the portfolio produced any verdict: the machine, not the
		// obligation (process table or memory exhausted); wait and try once more
		time.Sleep(3 * time.Second)
		first := ob.Model
		ob.Status, ob.Solver, ob.Model = "", "", ""
		db.discharge1(vc, ob, cfg)
		if ob.Status == "error" {
			ob.Model = first + "\n(second attempt) " + ob.Model
		}
	}
}

func (db *ContractDB) discharge1(vc *VC, ob *Obligation, cfg *solveCfg) {
	file := filepath.Join(cfg.dir, sanitizeFile(ob.Name)+".smt2")
	_ = os.WriteFile(file, []byte(db.queryText(vc, ob, false)), 0o644)
	var total float64
	agree := 0
	for i, s := range solvers {
		t := cfg.timeoutS
		if ob.Known {
			// recorded finding: one solver, short budget (it is expected not to discharge)
			if i > 0 {
				break
			}
			t = 4
		}
		if i > 0 && !cfg.allSolv {
			// later solvers are only consulted when the first was indefinite
		}
		st, out, d := runSolver(s, file, t, cfg.seed)
		if st == "error" {
			// a solver process that produced no verdict at all (killed, failed to
			// start): transient, try once more before moving on
			st, out, d = runSolver(s, file, t, cfg.seed)
		}
		total += d
		if st == "unsat" || st == "sat" {
			if ob.Status == "" || ob.Status == "unknown" || ob.Status == "timeout" || ob.Status == "error" {
				ob.Status = st
				ob.Solver = s.Name
			} else if ob.Status != st {
				ob.Status = "error"
				ob.Model = "solver disagreement: " + ob.Solver + " vs " + s.Name
				break
			} else {
				ob.Solver += "+" + s.Name
			}
			agree++
			if !cfg.allSolv || agree >= 2 {
				break
			}
			continue
		}
		if ob.Status == "" || (ob.Status == "error" && st != "error") {
			// an indefinite answer (unknown / timeout) says more than a crashed solver
			ob.Status = st
			ob.Solver = s.Name
			if st == "error" {
				ob.Model = "solver produced no verdict: " + firstLines(out, 5)
			}
		}
	}
	ob.TimeS = total
	if ob.Expect == "unsat" && (ob.Status == "unknown" || ob.Status == "timeout") {
		// no definite answer with the quantified axioms: ask for a model of the
		// ground part (a candidate counterexample; it is replayed on the real
		// code before it is called reproduced)
		gfile := filepath.Join(cfg.dir, sanitizeFile(ob.Name)+".ground.smt2")
		_ = os.WriteFile(gfile, []byte(db.queryTextG(vc, ob, true, true)), 0o644)
		st, out, _ := runSolver(solvers[0], gfile, cfg.timeoutS, cfg.seed)
		if st == "sat" {
			ob.Model = "; candidate model of the quantifier-free part of the query (status with axioms: " + ob.Status + ")\n" + out
			ob.Approx = true
		}
	}
	if ob.Status == "sat" && ob.Expect == "unsat" {
		// fetch a model
		mfile := filepath.Join(cfg.dir, sanitizeFile(ob.Name)+".model.smt2")
		_ = os.WriteFile(mfile, []byte(db.queryText(vc, ob, true)), 0o644)
		_, out, _ := runSolver(solvers[0], mfile, cfg.timeoutS, cfg.seed)
		ob.Model = out
	}
}

func firstLines(s string, n int) string {
	ls := strings.Split(s, "\n")
	if len(ls) > n {
		ls = ls[:n]
	}
	return strings.Join(ls, "\n")
}

func sanitizeFile(s string) string {
	var b strings.Builder
	for _, r := range s {
		if r >= 'a' && r <= 'z' || r >= 'A' && r <= 'Z' || r >= '0' && r <= '9' || r == '.' || r == '-' || r == '_' || r == '#' || r == '@' {
			b.WriteRune(r)
		} else {
			b.WriteByte('_')
		}
	}
	s2 := b.String()
	if len(s2) > 180 {
		s2 = s2[:180]
	}
	return s2
}

type job struct {
	vc *VC
	ob *Obligation
}

func (db *ContractDB) dischargeAll(jobs []job, cfg *solveCfg) {
	ch := make(chan job)
	var wg sync.WaitGroup
	for i := 0; i < cfg.workers; i++ {
		wg.Add(1)
		go func() {
			defer wg.Done()
			for j := range ch {
				db.discharge(j.vc, j.ob, cfg)
			}
		}()
	}
	for _, j := range jobs {
		ch <- j
	}
	close(ch)
	wg.Wait()
}
