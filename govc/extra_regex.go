package main

import (
	"fmt"
	"go/constant"
	"os"
	"path/filepath"
	"regexp/syntax"
	"strings"

	"golang.org/x/tools/go/ssa"
)

// Regular-expression constants: a package-level *regexp.Regexp that a contract
// treats as "matches exactly the language L" is checked here.  The literal is
// taken from the package initialiser in /repo (SSA), parsed with
// regexp/syntax, translated to an SMT-LIB RegLan term, and language
// equivalence with the specification regexp is discharged by the solver.  On
// success an axiom linking re_matches(<literal>, s) to the specification
// predicate is added to the prelude of this run.

type regexSpec struct {
	fn        string // if set: the regexp is the literal of the nth regexp.MustCompile call in this function (name = ordinal, "1"...)
	pkg, name string // global variable
	pred      string // specification predicate (V) Bool
	specRE    string // SMT RegLan of the specification language (full-string)
	desc      string
}

var regexSpecs = map[string][]regexSpec{
	"C11": {
		{"github.com/git-lfs/git-lfs/v3/tq.configureCustomAdapters", "github.com/git-lfs/git-lfs/v3/tq", "1", "",
			`(re.++ (str.to_re "lfs.customtransfer.") (re.+ (re.diff re.allchar (str.to_re "."))) (str.to_re ".path"))`,
			"a configuration key names a custom transfer agent only if the whole key is lfs.customtransfer.<name>.path (a key that merely contains such text - e.g. an lfs.<url>.access key, which .lfsconfig may set - does not)"},
	},
	"C07": {
		{"", "github.com/git-lfs/git-lfs/v3/lfs", "oidRE", "isoid",
			`((_ re.loop 64 64) (re.union (re.range "0" "9") (re.range "a" "f")))`,
			"object ids are exactly 64 lower-case hexadecimal digits"},
		{"", "github.com/git-lfs/git-lfs/v3/lfs", "extRE", "isextkey",
			`(re.++ (str.to_re "ext-") (re.range "0" "9") (str.to_re "-") (re.+ (re.union (re.range "0" "9") (re.range "a" "z") (re.range "A" "Z") (str.to_re "_"))) re.all)`,
			"extension keys start with ext-<one digit>-<word characters>"},
	},
}

func globalRegexLiteral(w *World, pkgPath, name string) (string, error) {
	for _, p := range w.prog.AllPackages() {
		if p.Pkg.Path() != pkgPath {
			continue
		}
		g, ok := p.Members[name].(*ssa.Global)
		if !ok {
			return "", fmt.Errorf("no package variable %s.%s", pkgPath, name)
		}
		e := &encoder{prog: w.prog, modPath: w.modPath, vc: newVC()}
		ci := &constInfo{e: e, repoFns: w.repoFns, status: map[*ssa.Global]*globalConst{}}
		gc := ci.analyse(g)
		if !gc.constant {
			return "", fmt.Errorf("%s is not constant: %s", name, gc.reason)
		}
		call, ok := gc.initVal.(*ssa.Call)
		if !ok {
			return "", fmt.Errorf("%s is not initialised by a call", name)
		}
		f := call.Common().StaticCallee()
		if f == nil || f.String() != "regexp.MustCompile" {
			return "", fmt.Errorf("%s is not initialised by regexp.MustCompile", name)
		}
		c, ok := call.Common().Args[0].(*ssa.Const)
		if !ok || c.Value == nil {
			return "", fmt.Errorf("%s: pattern is not a literal", name)
		}
		return constant.StringVal(c.Value), nil
	}
	return "", fmt.Errorf("package %s not loaded", pkgPath)
}

func smtStr(s string) string {
	var b strings.Builder
	b.WriteByte('"')
	for _, r := range s {
		if r == '"' {
			b.WriteString(`""`)
		} else if r < 32 || r > 126 || r == '\\' {
			fmt.Fprintf(&b, `\u{%x}`, r)
		} else {
			b.WriteRune(r)
		}
	}
	b.WriteByte('"')
	return b.String()
}

// reToSMT translates a parsed regexp to a RegLan term for full-string matching
// of MatchString semantics (unanchored unless \A / \z are present).
func reToSMT(re *syntax.Regexp) (string, error) {
	begin, end := false, false
	sub := []*syntax.Regexp{re}
	if re.Op == syntax.OpConcat {
		sub = re.Sub
	}
	if len(sub) > 0 && sub[0].Op == syntax.OpBeginText {
		begin = true
		sub = sub[1:]
	}
	if len(sub) > 0 && sub[len(sub)-1].Op == syntax.OpEndText {
		end = true
		sub = sub[:len(sub)-1]
	}
	var parts []string
	if !begin {
		parts = append(parts, "re.all")
	}
	for _, s := range sub {
		t, err := reNode(s)
		if err != nil {
			return "", err
		}
		parts = append(parts, t)
	}
	if !end {
		parts = append(parts, "re.all")
	}
	if len(parts) == 0 {
		return `(str.to_re "")`, nil
	}
	if len(parts) == 1 {
		return parts[0], nil
	}
	return "(re.++ " + strings.Join(parts, " ") + ")", nil
}

func reNode(re *syntax.Regexp) (string, error) {
	switch re.Op {
	case syntax.OpLiteral:
		return "(str.to_re " + smtStr(string(re.Rune)) + ")", nil
	case syntax.OpCharClass:
		var alts []string
		for i := 0; i+1 < len(re.Rune); i += 2 {
			lo, hi := re.Rune[i], re.Rune[i+1]
			if hi > 0x2FFFF {
				hi = 0x2FFFF
			}
			alts = append(alts, fmt.Sprintf("(re.range %s %s)", smtStr(string(lo)), smtStr(string(hi))))
		}
		if len(alts) == 0 {
			return "re.none", nil
		}
		if len(alts) == 1 {
			return alts[0], nil
		}
		return "(re.union " + strings.Join(alts, " ") + ")", nil
	case syntax.OpAnyChar, syntax.OpAnyCharNotNL:
		return "re.allchar", nil
	case syntax.OpEmptyMatch:
		return `(str.to_re "")`, nil
	case syntax.OpCapture:
		return reNode(re.Sub[0])
	case syntax.OpStar:
		t, err := reNode(re.Sub[0])
		return "(re.* " + t + ")", err
	case syntax.OpPlus:
		t, err := reNode(re.Sub[0])
		return "(re.+ " + t + ")", err
	case syntax.OpQuest:
		t, err := reNode(re.Sub[0])
		return "(re.opt " + t + ")", err
	case syntax.OpRepeat:
		t, err := reNode(re.Sub[0])
		if err != nil {
			return "", err
		}
		if re.Max < 0 {
			return fmt.Sprintf("(re.++ ((_ re.loop %d %d) %s) (re.* %s))", re.Min, re.Min, t, t), nil
		}
		return fmt.Sprintf("((_ re.loop %d %d) %s)", re.Min, re.Max, t), nil
	case syntax.OpConcat, syntax.OpAlternate:
		var ts []string
		for _, s := range re.Sub {
			t, err := reNode(s)
			if err != nil {
				return "", err
			}
			ts = append(ts, t)
		}
		op := "re.++"
		if re.Op == syntax.OpAlternate {
			op = "re.union"
		}
		if len(ts) == 1 {
			return ts[0], nil
		}
		return "(" + op + " " + strings.Join(ts, " ") + ")", nil
	}
	return "", fmt.Errorf("unsupported regexp operator %v in %q", re.Op, re.String())
}

// regexPre runs before the functions are encoded: it checks the regexp
// constants of property id and adds the linking axioms to the prelude.
func regexPre(w *World, id string, cfg *solveCfg) []*Obligation {
	var obls []*Obligation
	for _, rs := range regexSpecs[id] {
		ob := &Obligation{Name: rs.pkg[strings.LastIndex(rs.pkg, "/")+1:] + "." + rs.name + "#const@regexp-language", Kind: "const", Desc: rs.desc, Expect: "unsat"}
		obls = append(obls, ob)
		var lit string
		var err error
		if rs.fn != "" {
			ob.Name = rs.fn[strings.LastIndex(rs.fn, "/")+1:] + "#const@regexp-language:" + rs.name
			lit, err = localRegexLiteral(w, rs.fn, rs.name)
		} else {
			lit, err = globalRegexLiteral(w, rs.pkg, rs.name)
		}
		if err != nil {
			ob.Status = "error"
			ob.Model = err.Error()
			continue
		}
		re, err := syntax.Parse(lit, syntax.Perl)
		if err != nil {
			ob.Status = "error"
			ob.Model = err.Error()
			continue
		}
		smt, err := reToSMT(re.Simplify())
		if err != nil {
			smt, err = reToSMT(re)
		}
		if err != nil {
			ob.Status = "error"
			ob.Model = err.Error()
			continue
		}
		ob.Desc += fmt.Sprintf(" (literal %q)", lit)
		q := fmt.Sprintf("(set-logic ALL)\n(declare-const s String)\n(assert (not (= (str.in_re s %s) (str.in_re s %s))))\n(check-sat)\n(get-model)\n", smt, rs.specRE)
		file := filepath.Join(cfg.dir, sanitizeFile(ob.Name)+".smt2")
		os.WriteFile(file, []byte(q), 0o644)
		for _, s := range solvers {
			st, out, d := runSolver(s, file, cfg.timeoutS*3, cfg.seed)
			ob.TimeS += d
			if st == "unsat" || st == "sat" {
				ob.Status = st
				ob.Solver = s.Name
				if st == "sat" {
					ob.Model = "a string on which the code's regexp and the specified language disagree:\n" + out
				}
				break
			}
			ob.Status = st
		}
		if ob.Status == "unsat" && rs.pred != "" {
			// link the literal to the specification predicate for this run
			name := fmt.Sprintf("lit_re_%s", rs.name)
			if _, dup := w.db.LitNames[lit]; !dup {
				w.db.LitNames[lit] = name
				w.db.LitOrder = append(w.db.LitOrder, lit)
				w.db.SpecFns[name] = &SpecFn{Name: name, Res: SV}
			} else {
				name = w.db.LitNames[lit]
			}
			w.db.Prelude = append(w.db.Prelude, fmt.Sprintf("(assert (forall ((s V)) (! (= (re_matches %s s) (%s s)) :pattern ((re_matches %s s)))))", name, rs.pred, name))
		}
	}
	return obls
}

// localRegexLiteral returns the literal of the nth (1-based, source order)
// regexp.MustCompile call inside the named function.
func localRegexLiteral(w *World, fnKey, nth string) (string, error) {
	fn := w.fnByKey[fnKey]
	if fn == nil {
		return "", fmt.Errorf("function %s not found", fnKey)
	}
	type site struct {
		pos int
		lit string
		ok  bool
	}
	var sites []site
	for _, b := range fn.Blocks {
		for _, ins := range b.Instrs {
			call, ok := ins.(*ssa.Call)
			if !ok {
				continue
			}
			f := call.Common().StaticCallee()
			if f == nil || f.String() != "regexp.MustCompile" {
				continue
			}
			c, isConst := call.Common().Args[0].(*ssa.Const)
			s := site{pos: int(call.Pos())}
			if isConst && c.Value != nil {
				s.lit, s.ok = constant.StringVal(c.Value), true
			}
			sites = append(sites, s)
		}
	}
	for i := range sites {
		for j := i + 1; j < len(sites); j++ {
			if sites[j].pos < sites[i].pos {
				sites[i], sites[j] = sites[j], sites[i]
			}
		}
	}
	n := 0
	fmt.Sscanf(nth, "%d", &n)
	if n < 1 || n > len(sites) {
		return "", fmt.Errorf("%s has %d regexp.MustCompile calls, wanted number %s", fnKey, len(sites), nth)
	}
	if !sites[n-1].ok {
		return "", fmt.Errorf("%s: pattern %s is not a literal", fnKey, nth)
	}
	return sites[n-1].lit, nil
}
