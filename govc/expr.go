package main

import (
	"fmt"
	"go/ast"
	"go/constant"
	"go/token"
	"go/types"
	"strconv"
	"strings"

	"golang.org/x/tools/go/ssa"
)

// specCtx is the environment in which a contract expression is translated.
type specCtx struct {
	retBlk  *ssa.BasicBlock // postconditions: the block and index of the return
	retIdx  int
	fr      *frame
	st      *State
	old     *State
	iter    *State
	params  map[string]Term
	ptypes  map[string]types.Type
	results []Term
	rtypes  []types.Type
	rnames  []string
	blk     *ssa.BasicBlock
	idx     int
	bound   map[string]Term
	capt    map[string]tv      // addresses of captured variables (closure contracts)
	phiNext map[ssa.Value]Term // at a latch: the value each header phi takes on this back edge
	inIter  bool
	inOld   bool
	iterHdr *ssa.BasicBlock
	local   bool // resolve names through the SSA of fr.fn
	pkg     *types.Package
}

// specCtx for clauses evaluated inside the body of fr.fn.
func (fr *frame) specCtx(st, old, iter *State, blk *ssa.BasicBlock, idx int) *specCtx {
	c := &specCtx{fr: fr, st: st, old: old, iter: iter, blk: blk, idx: idx, local: true, bound: map[string]Term{}}
	if fr.fn.Pkg != nil {
		c.pkg = fr.fn.Pkg.Pkg
	} else if fr.fn.Parent() != nil && fr.fn.Parent().Pkg != nil {
		c.pkg = fr.fn.Parent().Pkg.Pkg
	}
	return c
}

func (c *specCtx) withState(st *State) *specCtx {
	n := *c
	n.st = st
	return &n
}

type tv struct {
	Term
	ty types.Type
}

func (c *specCtx) trBool(e ast.Expr) (string, error) {
	t, err := c.tr(e)
	if err != nil {
		return "", err
	}
	if t.Sort != SBool {
		return "", fmt.Errorf("expression %s is not boolean", exprString(e))
	}
	return t.S, nil
}

// goal translates a clause that becomes an obligation and records the
// source-level names it mentions (for counterexample presentation/replay).
func (c *specCtx) goal(e ast.Expr) (string, error) {
	c.fr.witness = map[string]string{}
	return c.trBool(e)
}

func exprString(e ast.Expr) string {
	return types.ExprString(e)
}

func (c *specCtx) tr(e ast.Expr) (tv, error) {
	vc := c.fr.vc()
	switch x := e.(type) {
	case *ast.ParenExpr:
		return c.tr(x.X)
	case *ast.BasicLit:
		switch x.Kind {
		case token.INT:
			v, err := strconv.ParseInt(x.Value, 0, 64)
			if err != nil {
				return tv{}, err
			}
			return tv{Term{smtInt(v), SInt}, types.Typ[types.Int]}, nil
		case token.STRING:
			s, err := strconv.Unquote(x.Value)
			if err != nil {
				return tv{}, err
			}
			return tv{vc.strLit(s), types.Typ[types.String]}, nil
		case token.CHAR:
			s, err := strconv.Unquote(x.Value)
			if err != nil {
				return tv{}, err
			}
			return tv{Term{fmt.Sprint(int([]rune(s)[0])), SInt}, types.Typ[types.Int]}, nil
		}
		return tv{}, fmt.Errorf("unsupported literal %s", x.Value)
	case *ast.Ident:
		return c.ident(x.Name)
	case *ast.UnaryExpr:
		if id, ok := x.X.(*ast.Ident); ok && x.Op == token.AND {
			// &v: the address of a local that lives in memory
			fr := c.fr
			for _, b := range fr.fn.Blocks {
				for _, ins := range b.Instrs {
					if a, ok := ins.(*ssa.Alloc); ok && a.Comment == id.Name {
						if _, defined := fr.vals[a]; defined {
							return tv{fr.vals[a], a.Type()}, nil
						}
					}
				}
			}
			return tv{}, fmt.Errorf("&%s: no such memory-resident local here", id.Name)
		}
		a, err := c.tr(x.X)
		if err != nil {
			return tv{}, err
		}
		switch x.Op {
		case token.NOT:
			return tv{Term{not(a.S), SBool}, types.Typ[types.Bool]}, nil
		case token.SUB:
			return tv{Term{fmt.Sprintf("(- %s)", a.S), SInt}, a.ty}, nil
		}
		return tv{}, fmt.Errorf("unsupported unary %s", x.Op)
	case *ast.StarExpr:
		a, err := c.tr(x.X)
		if err != nil {
			return tv{}, err
		}
		return c.derefTV(a)
	case *ast.BinaryExpr:
		return c.binary(x)
	case *ast.SelectorExpr:
		// package-qualified constant/global?
		if id, ok := x.X.(*ast.Ident); ok && c.pkg != nil {
			if _, isLocal := c.tryIdent(id.Name); !isLocal {
				if id.Name == c.pkg.Name() {
					return c.pkgObject(c.pkg, x.Sel.Name)
				}
				for _, p := range c.fr.enc.prog.AllPackages() {
					if p.Pkg.Path() == id.Name {
						return c.pkgObject(p.Pkg, x.Sel.Name)
					}
				}
				for _, imp := range c.pkg.Imports() {
					if imp.Name() == id.Name {
						return c.pkgObject(imp, x.Sel.Name)
					}
				}
				// not imported by the function's package: a package of the
				// repository's own module with that name, when there is one only
				var cand *types.Package
				n := 0
				for _, p := range c.fr.enc.prog.AllPackages() {
					if p.Pkg.Name() == id.Name && strings.HasPrefix(p.Pkg.Path(), "github.com/git-lfs/git-lfs/") {
						cand = p.Pkg
						n++
					}
				}
				if n == 1 {
					return c.pkgObject(cand, x.Sel.Name)
				}
			}
		}
		a, err := c.tr(x.X)
		if err != nil {
			return tv{}, err
		}
		return c.selectField(a, x.Sel.Name)
	case *ast.IndexExpr:
		a, err := c.tr(x.X)
		if err != nil {
			return tv{}, err
		}
		i, err := c.tr(x.Index)
		if err != nil {
			return tv{}, err
		}
		return c.index(a, i)
	case *ast.SliceExpr:
		a, err := c.tr(x.X)
		if err != nil {
			return tv{}, err
		}
		lo := tv{Term{"0", SInt}, types.Typ[types.Int]}
		if x.Low != nil {
			if lo, err = c.tr(x.Low); err != nil {
				return tv{}, err
			}
		}
		isStr := a.ty != nil && isStringType(a.ty) || a.ty == nil
		var hi tv
		if x.High != nil {
			if hi, err = c.tr(x.High); err != nil {
				return tv{}, err
			}
		} else if isStr {
			hi = tv{Term{fmt.Sprintf("(blen %s)", a.S), SInt}, nil}
		} else {
			hi = tv{Term{fmt.Sprintf("(sl_len %s)", a.S), SInt}, nil}
		}
		if isStr {
			return tv{Term{fmt.Sprintf("(bsub %s %s %s)", a.S, lo.S, hi.S), SV}, a.ty}, nil
		}
		return tv{Term{fmt.Sprintf("(sl_slice %s %s %s)", a.S, lo.S, hi.S), SV}, a.ty}, nil
	case *ast.CallExpr:
		return c.callExpr(x)
	}
	return tv{}, fmt.Errorf("unsupported expression %s (%T)", exprString(e), e)
}

func isStringType(t types.Type) bool {
	b, ok := t.Underlying().(*types.Basic)
	return ok && b.Info()&types.IsString != 0
}

func (c *specCtx) derefTV(a tv) (tv, error) {
	if a.ty == nil {
		return tv{}, fmt.Errorf("cannot dereference untyped spec value")
	}
	p, ok := a.ty.Underlying().(*types.Pointer)
	if !ok {
		return tv{}, fmt.Errorf("cannot dereference %s", a.ty)
	}
	fr := c.fr
	vc := fr.vc()
	if isStruct(p.Elem()) {
		return tv{fr.loadStruct(a.Term, p.Elem(), c.st), p.Elem()}, nil
	}
	key := vc.keyCell(p.Elem())
	return tv{Term{fmt.Sprintf("(select %s %s)", vc.cur(c.st, key), a.S), sortOf(p.Elem())}, p.Elem()}, nil
}

func (c *specCtx) pkgObject(pkg *types.Package, name string) (tv, error) {
	obj := pkg.Scope().Lookup(name)
	if obj == nil {
		return tv{}, fmt.Errorf("%s.%s not found", pkg.Name(), name)
	}
	return c.object(obj)
}

func (c *specCtx) object(obj types.Object) (tv, error) {
	vc := c.fr.vc()
	switch o := obj.(type) {
	case *types.Const:
		switch o.Val().Kind() {
		case constant.Int:
			n, _ := constant.Int64Val(o.Val())
			return tv{Term{smtInt(n), SInt}, o.Type()}, nil
		case constant.String:
			return tv{vc.strLit(constant.StringVal(o.Val())), o.Type()}, nil
		case constant.Bool:
			if constant.BoolVal(o.Val()) {
				return tv{Term{"true", SBool}, o.Type()}, nil
			}
			return tv{Term{"false", SBool}, o.Type()}, nil
		}
	case *types.Var:
		// package-level variable
		sp := c.fr.enc.prog.Package(o.Pkg())
		if sp != nil {
			if g, ok := sp.Members[o.Name()].(*ssa.Global); ok {
				if t, ok := c.fr.enc.consts.valueOf(c.fr, g); ok {
					return tv{t, o.Type()}, nil
				}
				lv := c.fr.addrOf(g)
				return tv{c.fr.load(lv, c.st), o.Type()}, nil
			}
		}
	}
	return tv{}, fmt.Errorf("unsupported object %s", obj)
}

func (c *specCtx) tryIdent(name string) (tv, bool) {
	t, err := c.ident(name)
	return t, err == nil
}

func (c *specCtx) ident(name string) (tv, error) {
	t, err := c.ident0(name)
	if err == nil && c.fr.witness != nil && t.S != "" {
		switch name {
		case "true", "false", "nil":
		default:
			if _, dup := c.fr.witness[name]; !dup {
				c.fr.witness[name] = t.S
			}
		}
	}
	return t, err
}

func (c *specCtx) ident0(name string) (tv, error) {
	fr := c.fr
	if t, ok := c.bound[name]; ok {
		return tv{t, nil}, nil
	}
	if fr.callArgs != nil && strings.HasPrefix(name, "arg") && strings.HasSuffix(name, "__") {
		if n, err := strconv.Atoi(name[3 : len(name)-2]); err == nil && n < len(fr.callArgs) {
			return tv{fr.callArgs[n], fr.callArgTypes[n]}, nil
		}
	}
	if fr.mapKV != nil {
		switch name {
		case "mapkey__":
			return fr.mapKV[0], nil
		case "mapval__":
			return fr.mapKV[1], nil
		}
	}
	switch name {
	case "true":
		return tv{Term{"true", SBool}, types.Typ[types.Bool]}, nil
	case "false":
		return tv{Term{"false", SBool}, types.Typ[types.Bool]}, nil
	case "nil":
		return tv{Term{"vnil", SV}, types.Typ[types.UntypedNil]}, nil
	case "result":
		if len(c.results) >= 1 {
			return tv{c.results[0], c.rtypes[0]}, nil
		}
		return tv{}, fmt.Errorf("no result here")
	}
	if strings.HasPrefix(name, "result") {
		if n, err := strconv.Atoi(name[6:]); err == nil {
			if n < len(c.results) {
				return tv{c.results[n], c.rtypes[n]}, nil
			}
			return tv{}, fmt.Errorf("no result %d", n)
		}
	}
	if c.results != nil {
		for i, rn := range c.rnames {
			if rn == name && rn != "" && i < len(c.results) {
				return tv{c.results[i], c.rtypes[i]}, nil
			}
		}
	}
	if a, ok := c.capt[name]; ok {
		// captured variable of a closure: its value in the state being talked about
		et := deref(a.ty)
		if isStruct(et) {
			return tv{fr.loadStruct(a.Term, et, c.st), et}, nil
		}
		key := fr.vc().keyCell(et)
		return tv{Term{fmt.Sprintf("(select %s %s)", fr.vc().cur(c.st, key), a.S), sortOf(et)}, et}, nil
	}
	if c.params != nil {
		if t, ok := c.params[name]; ok {
			return tv{t, c.ptypes[name]}, nil
		}
	}
	if c.local {
		if t, ok := c.localName(name); ok {
			return t, nil
		}
		if t, ok := c.localAtReturn(name); ok {
			return t, nil
		}
	}
	// spec constants (declare-const in prelude)
	if sf, ok := fr.enc.db.SpecFns[name]; ok && len(sf.Args) == 0 {
		fr.vc().usedSpecs[name] = true
		return tv{Term{name, sf.Res}, nil}, nil
	}
	if g, ok := fr.enc.db.Ghosts[name]; ok && g.Key == nil {
		key := fr.vc().keyGhost(g)
		return tv{Term{fr.vc().cur(c.st, key), g.Val}, nil}, nil
	}
	// package scope
	if c.pkg != nil {
		if obj := c.pkg.Scope().Lookup(name); obj != nil {
			return c.object(obj)
		}
	}
	return tv{}, fmt.Errorf("unknown identifier %q", name)
}

// localAtReturn: in a postcondition (no program point of its own) a name that
// is neither a parameter nor a result is looked up as a local variable at the
// return the postcondition is checked at.
func (c *specCtx) localAtReturn(name string) (tv, bool) {
	if c.blk != nil || c.retBlk == nil || c.inOld {
		return tv{}, false
	}
	for _, p := range c.fr.fn.Params {
		if p.Name() == name {
			return tv{}, false
		}
	}
	n := *c
	n.blk, n.idx, n.retBlk = c.retBlk, c.retIdx, nil
	return n.localName(name)
}

// localName resolves a source-level variable name at the ctx position.
func (c *specCtx) localName(name string) (tv, bool) {
	fr := c.fr
	fn := fr.fn
	get := func(v ssa.Value, addr bool) (tv, bool) {
		if addr {
			lv := fr.addrOf(v)
			return tv{fr.load(lv, c.st), deref(v.Type())}, true
		}
		if !c.inIter && c.phiNext != nil {
			if t, ok := c.phiNext[v]; ok {
				return tv{t, v.Type()}, true
			}
		}
		return tv{fr.val(v), v.Type()}, true
	}
	if c.inIter && c.iterHdr != nil {
		// inside iter(): loop-carried variables have their value at the loop head
		for _, ins := range c.iterHdr.Instrs {
			phi, ok := ins.(*ssa.Phi)
			if !ok {
				break
			}
			if phi.Comment == name {
				return tv{fr.val(phi), phi.Type()}, true
			}
		}
	}
	// address-taken variables (captured by closures, &x): their value lives in a cell.
	// In pre/postconditions (no program point) a parameter name means its entry value.
	isParam := false
	for _, p := range fn.Params {
		if p.Name() == name {
			isParam = true
		}
	}
	if c.inOld && isParam {
		// inside old(): a parameter name is its entry value (its cell, if it is
		// captured by a closure, has not been initialised in the entry state)
		for _, p := range fn.Params {
			if p.Name() == name {
				return get(p, false)
			}
		}
	}
	for _, b := range fn.Blocks {
		if c.blk == nil && isParam {
			break
		}
		for _, ins := range b.Instrs {
			if a, ok := ins.(*ssa.Alloc); ok && a.Comment == name && a.Heap {
				if _, defined := fr.vals[a]; defined {
					lv := fr.addrOf(a)
					return tv{fr.load(lv, c.st), deref(a.Type())}, true
				}
			}
		}
	}
	if c.blk != nil {
		b := c.blk
		limit := c.idx
		first := true
		for b != nil {
			// debug refs in b before limit (or all when dominating)
			nb := fr.names[b]
			for i := len(nb) - 1; i >= 0; i-- {
				if nb[i].name != name {
					continue
				}
				if first && limit >= 0 && nb[i].idx >= limit {
					continue
				}
				if first && limit < 0 {
					continue // header context: only phis of this block
				}
				if _, defined := fr.vals[nb[i].val]; !defined {
					switch nb[i].val.(type) {
					case *ssa.Const, *ssa.Global, *ssa.Function, *ssa.Parameter, *ssa.FreeVar:
					default:
						continue
					}
				}
				if (c.inIter || c.inOld) && !nb[i].addr {
					// the state talked about is not the current one: a variable that
					// lives in memory (a local struct, an address-taken local) has the
					// value its cell held in that state, not the value last assigned
					if av, ok := c.addrBinding(name, b); ok {
						return get(av, true)
					}
				}
				return get(nb[i].val, nb[i].addr)
			}
			for _, ins := range b.Instrs {
				phi, ok := ins.(*ssa.Phi)
				if !ok {
					break
				}
				if phi.Comment == name {
					if _, defined := fr.vals[phi]; defined {
						return get(phi, false)
					}
				}
			}
			first = false
			b = b.Idom()
		}
	}
	for _, p := range fn.Params {
		if p.Name() == name {
			return get(p, false)
		}
	}
	for _, fv := range fn.FreeVars {
		if fv.Name() == name {
			// captured variable: pointer to the cell
			lv := fr.addrOf(fv)
			return tv{fr.load(lv, c.st), deref(fv.Type())}, true
		}
	}
	// named local alloc (e.g. named results in functions with defer)
	for _, b := range fn.Blocks {
		for _, ins := range b.Instrs {
			if a, ok := ins.(*ssa.Alloc); ok && a.Comment == name {
				if _, defined := fr.vals[a]; defined {
					lv := fr.addrOf(a)
					return tv{fr.load(lv, c.st), deref(a.Type())}, true
				}
			}
		}
	}
	return tv{}, false
}

// addrBinding finds the memory cell of a source variable: a debug reference by
// address to it in block b or one of its dominators.
func (c *specCtx) addrBinding(name string, b *ssa.BasicBlock) (ssa.Value, bool) {
	fr := c.fr
	for ; b != nil; b = b.Idom() {
		nb := fr.names[b]
		for i := len(nb) - 1; i >= 0; i-- {
			if nb[i].name == name && nb[i].addr {
				if _, defined := fr.vals[nb[i].val]; defined {
					return nb[i].val, true
				}
				if _, isAlloc := nb[i].val.(*ssa.Alloc); isAlloc {
					return nb[i].val, true
				}
			}
		}
	}
	return nil, false
}

func (c *specCtx) selectField(a tv, name string) (tv, error) {
	fr := c.fr
	vc := fr.vc()
	if a.ty == nil {
		return tv{}, fmt.Errorf("field %s of untyped spec value", name)
	}
	obj, path, _ := types.LookupFieldOrMethod(a.ty, true, c.pkgOrNil(), name)
	f, ok := obj.(*types.Var)
	if !ok || f == nil {
		// specifications may name unexported fields of other packages
		if p := findFieldPath(deref(a.ty), name, 0); p != nil {
			path = p
			ok = true
		}
	}
	if !ok {
		return tv{}, fmt.Errorf("no field %s in %s", name, a.ty)
	}
	cur := a
	for _, idx := range path {
		t := cur.ty
		isPtr := false
		if p, ok := t.Underlying().(*types.Pointer); ok {
			t = p.Elem()
			isPtr = true
		}
		su, ok := t.Underlying().(*types.Struct)
		if !ok {
			return tv{}, fmt.Errorf("not a struct: %s", t)
		}
		fld := su.Field(idx)
		so := sortOf(fld.Type())
		if isPtr {
			if isStruct(fld.Type()) {
				cur = tv{Term{fmt.Sprintf("(%s %s)", fr.enc.faFun(t, fld.Name()), cur.S), SInt}, types.NewPointer(fld.Type())}
			} else {
				key := vc.keyField(t, fld.Name(), so)
				cur = tv{Term{fmt.Sprintf("(select %s %s)", vc.cur(c.st, key), cur.S), so}, fld.Type()}
			}
		} else {
			cur = tv{Term{fmt.Sprintf("(%s %s)", fr.enc.fldSel(t, fld.Name(), so), cur.S), so}, fld.Type()}
		}
	}
	return cur, nil
}

func (c *specCtx) pkgOrNil() *types.Package { return c.pkg }

func (c *specCtx) index(a, i tv) (tv, error) {
	fr := c.fr
	vc := fr.vc()
	if a.ty == nil {
		return tv{}, fmt.Errorf("index of untyped spec value")
	}
	switch t := a.ty.Underlying().(type) {
	case *types.Slice:
		so := sortOf(t.Elem())
		return tv{Term{fmt.Sprintf("(%s %s %s)", atFn(so), a.S, i.S), so}, t.Elem()}, nil
	case *types.Array:
		so := sortOf(t.Elem())
		return tv{Term{fmt.Sprintf("(%s %s %s)", atFn(so), a.S, i.S), so}, t.Elem()}, nil
	case *types.Basic:
		return tv{Term{fmt.Sprintf("(byte_at %s %s)", a.S, i.S), SInt}, types.Typ[types.Uint8]}, nil
	case *types.Map:
		dom, val := vc.keyMap(t)
		has := fmt.Sprintf("(select (select %s %s) %s)", vc.cur(c.st, dom), a.S, i.S)
		raw := fmt.Sprintf("(select (select %s %s) %s)", vc.cur(c.st, val), a.S, i.S)
		return tv{Term{ite(has, raw, fr.enc.zeroValue(t.Elem()).S), sortOf(t.Elem())}, t.Elem()}, nil
	}
	return tv{}, fmt.Errorf("cannot index %s", a.ty)
}

func (c *specCtx) binary(x *ast.BinaryExpr) (tv, error) {
	a, err := c.tr(x.X)
	if err != nil {
		return tv{}, err
	}
	b, err := c.tr(x.Y)
	if err != nil {
		return tv{}, err
	}
	// nil adapts to the other side
	if a.S == "vnil" && b.Sort == SInt {
		a.Term = Term{"0", SInt}
	}
	if b.S == "vnil" && a.Sort == SInt {
		b.Term = Term{"0", SInt}
	}
	boolT := types.Typ[types.Bool]
	switch x.Op {
	case token.LAND:
		return tv{Term{and(a.S, b.S), SBool}, boolT}, nil
	case token.LOR:
		return tv{Term{or(a.S, b.S), SBool}, boolT}, nil
	case token.EQL:
		if a.Sort != b.Sort {
			return tv{}, fmt.Errorf("sort mismatch in %s", exprString(x))
		}
		return tv{Term{eq(a.S, b.S), SBool}, boolT}, nil
	case token.NEQ:
		if a.Sort != b.Sort {
			return tv{}, fmt.Errorf("sort mismatch in %s", exprString(x))
		}
		return tv{Term{not(eq(a.S, b.S)), SBool}, boolT}, nil
	}
	if a.Sort == SInt && b.Sort == SInt {
		ty := a.ty
		if ty == nil {
			ty = b.ty
		}
		switch x.Op {
		case token.LSS:
			return tv{Term{fmt.Sprintf("(< %s %s)", a.S, b.S), SBool}, boolT}, nil
		case token.LEQ:
			return tv{Term{fmt.Sprintf("(<= %s %s)", a.S, b.S), SBool}, boolT}, nil
		case token.GTR:
			return tv{Term{fmt.Sprintf("(> %s %s)", a.S, b.S), SBool}, boolT}, nil
		case token.GEQ:
			return tv{Term{fmt.Sprintf("(>= %s %s)", a.S, b.S), SBool}, boolT}, nil
		case token.ADD:
			return tv{Term{fmt.Sprintf("(+ %s %s)", a.S, b.S), SInt}, ty}, nil
		case token.SUB:
			return tv{Term{fmt.Sprintf("(- %s %s)", a.S, b.S), SInt}, ty}, nil
		case token.MUL:
			return tv{Term{fmt.Sprintf("(* %s %s)", a.S, b.S), SInt}, ty}, nil
		case token.QUO:
			return tv{Term{fmt.Sprintf("(godiv %s %s)", a.S, b.S), SInt}, ty}, nil
		case token.REM:
			return tv{Term{fmt.Sprintf("(gorem %s %s)", a.S, b.S), SInt}, ty}, nil
		case token.AND:
			return tv{Term{fmt.Sprintf("(int_and %s %s)", a.S, b.S), SInt}, ty}, nil
		case token.OR:
			return tv{Term{fmt.Sprintf("(int_or %s %s)", a.S, b.S), SInt}, ty}, nil
		case token.AND_NOT:
			return tv{Term{fmt.Sprintf("(int_andnot %s %s)", a.S, b.S), SInt}, ty}, nil
		}
	}
	if a.Sort == SV && b.Sort == SV && x.Op == token.ADD {
		return tv{Term{fmt.Sprintf("(scat %s %s)", a.S, b.S), SV}, a.ty}, nil
	}
	return tv{}, fmt.Errorf("unsupported binary %s on %s/%s", x.Op, a.Sort, b.Sort)
}

func (c *specCtx) callExpr(x *ast.CallExpr) (tv, error) {
	fr := c.fr
	vc := fr.vc()
	id, ok := x.Fun.(*ast.Ident)
	if !ok {
		return tv{}, fmt.Errorf("unsupported call %s", exprString(x))
	}
	name := id.Name
	args := x.Args
	boolT := types.Typ[types.Bool]
	switch name {
	case "defined":
		// defined(x): does the source-level name x have a value at this program
		// point?  (lets one per-iteration clause cover latches that lie before
		// the variable's definition)
		if id, ok := args[0].(*ast.Ident); ok {
			if _, ok := c.localName(id.Name); ok {
				return tv{Term{"true", SBool}, boolT}, nil
			}
			if _, ok := c.localAtReturn(id.Name); ok {
				return tv{Term{"true", SBool}, boolT}, nil
			}
			if _, ok := c.params[id.Name]; ok {
				return tv{Term{"true", SBool}, boolT}, nil
			}
		}
		return tv{Term{"false", SBool}, boolT}, nil
	case "implies__":
		a, err := c.trBool(args[0])
		if err != nil {
			return tv{}, err
		}
		if a == "false" {
			// the consequent may mention names that do not exist here
			return tv{Term{"true", SBool}, boolT}, nil
		}
		b, err := c.trBool(args[1])
		if err != nil {
			return tv{}, err
		}
		return tv{Term{implies(a, b), SBool}, boolT}, nil
	case "iff__":
		a, err := c.trBool(args[0])
		if err != nil {
			return tv{}, err
		}
		b, err := c.trBool(args[1])
		if err != nil {
			return tv{}, err
		}
		return tv{Term{eq(a, b), SBool}, boolT}, nil
	case "old":
		if c.old == nil {
			return tv{}, fmt.Errorf("old() not available here")
		}
		oc := c.withState(c.old)
		oc.inOld = true
		return oc.tr(args[0])
	case "iter":
		if c.iter == nil {
			return tv{}, fmt.Errorf("iter() not available here")
		}
		n := c.withState(c.iter)
		n.inIter = true
		return n.tr(args[0])
	case "iter1", "iter2", "iter3", "iter4", "iter5":
		n := int(name[4] - '0')
		for _, li := range fr.loops {
			if li.ordinal == n && li.hdrSt != nil {
				return c.withState(li.hdrSt).tr(args[0])
			}
		}
		return tv{}, fmt.Errorf("%s(): loop %d has not been entered here", name, n)
	case "ite":
		cnd, err := c.trBool(args[0])
		if err != nil {
			return tv{}, err
		}
		a, err := c.tr(args[1])
		if err != nil {
			return tv{}, err
		}
		b, err := c.tr(args[2])
		if err != nil {
			return tv{}, err
		}
		return tv{Term{ite(cnd, a.S, b.S), a.Sort}, a.ty}, nil
	case "forall_int", "exists_int", "forall_v", "exists_v":
		vid, ok := args[0].(*ast.Ident)
		if !ok {
			return tv{}, fmt.Errorf("quantifier needs identifier")
		}
		so := SInt
		if strings.HasSuffix(name, "_v") {
			so = SV
		}
		bn := "q!" + vid.Name
		n := *c
		n.bound = map[string]Term{}
		for k, v := range c.bound {
			n.bound[k] = v
		}
		n.bound[vid.Name] = Term{bn, so}
		bodyArg := args[1]
		trig := ""
		if len(args) == 3 {
			// forall_x(v, trigger, body)
			t, err := n.tr(args[1])
			if err != nil {
				return tv{}, err
			}
			trig = t.S
			bodyArg = args[2]
		}
		body, err := n.trBool(bodyArg)
		if err != nil {
			return tv{}, err
		}
		q := "forall"
		if strings.HasPrefix(name, "exists") {
			q = "exists"
		}
		if trig != "" {
			return tv{Term{fmt.Sprintf("(%s ((%s %s)) (! %s :pattern (%s)))", q, bn, so, body, trig), SBool}, boolT}, nil
		}
		return tv{Term{fmt.Sprintf("(%s ((%s %s)) %s)", q, bn, so, body), SBool}, boolT}, nil
	case "len":
		a, err := c.tr(args[0])
		if err != nil {
			return tv{}, err
		}
		if a.ty != nil {
			switch a.ty.Underlying().(type) {
			case *types.Slice:
				return tv{Term{fmt.Sprintf("(sl_len %s)", a.S), SInt}, types.Typ[types.Int]}, nil
			case *types.Map:
				return tv{}, fmt.Errorf("len of map unsupported in specs")
			}
		}
		return tv{Term{fmt.Sprintf("(blen %s)", a.S), SInt}, types.Typ[types.Int]}, nil
	case "cap":
		a, err := c.tr(args[0])
		if err != nil {
			return tv{}, err
		}
		return tv{Term{fmt.Sprintf("(sl_cap %s)", a.S), SInt}, types.Typ[types.Int]}, nil
	case "bytesOf":
		a, err := c.tr(args[0])
		if err != nil {
			return tv{}, err
		}
		if a.ty != nil && isByteSlice(a.ty) {
			return tv{fr.bytesOf(a.Term, c.st), nil}, nil
		}
		return tv{a.Term, nil}, nil
	case "has":
		m, err := c.tr(args[0])
		if err != nil {
			return tv{}, err
		}
		k, err := c.tr(args[1])
		if err != nil {
			return tv{}, err
		}
		mt, ok := m.ty.Underlying().(*types.Map)
		if !ok {
			return tv{}, fmt.Errorf("has() needs a map")
		}
		dom, _ := vc.keyMap(mt)
		return tv{Term{fmt.Sprintf("(select (select %s %s) %s)", vc.cur(c.st, dom), m.S, k.S), SBool}, boolT}, nil
	case "iface":
		// iface(e): the interface value holding e (dynamic type = static Go type of e)
		a, err := c.tr(args[0])
		if err != nil {
			return tv{}, err
		}
		if a.ty == nil {
			return tv{}, fmt.Errorf("iface() needs a Go-typed value")
		}
		if types.IsInterface(a.ty) {
			return a, nil
		}
		tag := vc.typeTag(a.ty)
		return tv{Term{fmt.Sprintf("(mkif_%s %s %s)", a.Sort.Suffix(), tag, a.S), SV}, nil}, nil
	case "ptr_as":
		// ptr_as(x, "pkg/path.Type"): the pointer payload of interface value x, typed *Type
		a, err := c.tr(args[0])
		if err != nil {
			return tv{}, err
		}
		lit, ok := args[1].(*ast.BasicLit)
		if !ok {
			return tv{}, fmt.Errorf("ptr_as needs a string literal")
		}
		name, _ := strconv.Unquote(lit.Value)
		i := strings.LastIndex(name, ".")
		if i < 0 {
			return tv{}, fmt.Errorf("ptr_as: bad type name %q", name)
		}
		var T types.Type
		for _, p := range fr.enc.prog.AllPackages() {
			if p.Pkg.Path() == name[:i] {
				if obj := p.Pkg.Scope().Lookup(name[i+1:]); obj != nil {
					T = obj.Type()
				}
			}
		}
		if T == nil {
			return tv{}, fmt.Errorf("ptr_as: type %q not found", name)
		}
		if a.Sort == SInt {
			return tv{a.Term, types.NewPointer(T)}, nil
		}
		return tv{Term{fmt.Sprintf("(ipay_I %s)", a.S), SInt}, types.NewPointer(T)}, nil
	case "gocall":
		// gocall("path/filepath.Rel", 0, a, b): result number 0 of the library function
		// applied to a, b - the same uninterpreted application the encoder uses for
		// a call of that (pure-package) function in the code
		lit, ok := args[0].(*ast.BasicLit)
		idxLit, ok2 := args[1].(*ast.BasicLit)
		if !ok || !ok2 {
			return tv{}, fmt.Errorf("gocall needs a function name and a result index")
		}
		name, _ := strconv.Unquote(lit.Value)
		ri, _ := strconv.Atoi(idxLit.Value)
		dot := strings.LastIndex(name, ".")
		if dot < 0 {
			return tv{}, fmt.Errorf("gocall: bad function name %q", name)
		}
		var sig *types.Signature
		pkgPath := name[:dot]
		if strings.HasPrefix(name, "(") {
			// a method: "(*net/url.URL).String" or "(time.Time).Format"; the receiver is the first argument
			close := strings.Index(name, ")")
			recv := strings.TrimPrefix(name[1:close], "*")
			rd := strings.LastIndex(recv, ".")
			if close < 0 || rd < 0 {
				return tv{}, fmt.Errorf("gocall: bad method name %q", name)
			}
			pkgPath = recv[:rd]
			for _, p := range fr.enc.prog.AllPackages() {
				if p.Pkg.Path() == pkgPath {
					if tn, ok := p.Pkg.Scope().Lookup(recv[rd+1:]).(*types.TypeName); ok {
						obj, _, _ := types.LookupFieldOrMethod(types.NewPointer(tn.Type()), true, p.Pkg, name[dot+1:])
						if fo, ok := obj.(*types.Func); ok {
							sig = fo.Type().(*types.Signature)
						}
					}
				}
			}
		} else {
			for _, p := range fr.enc.prog.AllPackages() {
				if p.Pkg.Path() == pkgPath {
					if fo, ok := p.Pkg.Scope().Lookup(name[dot+1:]).(*types.Func); ok {
						sig = fo.Type().(*types.Signature)
					}
				}
			}
		}
		if sig == nil || !fr.enc.db.PurePkgs[pkgPath] || ri >= sig.Results().Len() {
			return tv{}, fmt.Errorf("gocall: %q is not a function of a pure package (or has no such result)", name)
		}
		var sorts, as []string
		for _, a := range args[2:] {
			t, err := c.tr(a)
			if err != nil {
				return tv{}, err
			}
			sorts = append(sorts, t.Sort.String())
			as = append(as, t.S)
		}
		rt := sig.Results().At(ri).Type()
		fn := fmt.Sprintf("pure:%s#%d", name, ri)
		vc.declFun(fn, sorts, sortOf(rt).String())
		term := sym(fn)
		if len(as) > 0 {
			term = "(" + sym(fn) + " " + strings.Join(as, " ") + ")"
		}
		return tv{Term{term, sortOf(rt)}, rt}, nil
	case "typed":
		// typed(x, "map[string][]string"): the value x (a ghost, say) read with
		// the Go type written in the second argument (evaluated in the scope of
		// the function's package)
		a, err := c.tr(args[0])
		if err != nil {
			return tv{}, err
		}
		lit, ok := args[1].(*ast.BasicLit)
		if !ok || c.pkg == nil {
			return tv{}, fmt.Errorf("typed needs a string literal")
		}
		name, _ := strconv.Unquote(lit.Value)
		tvv, err := types.Eval(fr.enc.prog.Fset, c.pkg, token.NoPos, name)
		if err != nil || tvv.Type == nil {
			return tv{}, fmt.Errorf("typed: cannot evaluate type %q: %v", name, err)
		}
		if sortOf(tvv.Type) != a.Sort {
			return tv{}, fmt.Errorf("typed: %q has sort %s, the value has sort %s", name, sortOf(tvv.Type), a.Sort)
		}
		return tv{a.Term, tvv.Type}, nil
	case "sliceof":
		// sliceof(x, "pkg/path.Type"): the value x (a ghost, say) read as []Type
		a, err := c.tr(args[0])
		if err != nil {
			return tv{}, err
		}
		lit, ok := args[1].(*ast.BasicLit)
		if !ok {
			return tv{}, fmt.Errorf("sliceof needs a string literal")
		}
		name, _ := strconv.Unquote(lit.Value)
		i := strings.LastIndex(name, ".")
		if i < 0 || a.Sort != SV {
			return tv{}, fmt.Errorf("sliceof: bad type name %q or argument", name)
		}
		var T types.Type
		for _, p := range fr.enc.prog.AllPackages() {
			if p.Pkg.Path() == name[:i] {
				if obj := p.Pkg.Scope().Lookup(name[i+1:]); obj != nil {
					T = obj.Type()
				}
			}
		}
		if T == nil {
			return tv{}, fmt.Errorf("sliceof: type %q not found", name)
		}
		return tv{a.Term, types.NewSlice(T)}, nil
	case "as_slice":
		a, err := c.tr(args[0])
		if err != nil {
			return tv{}, err
		}
		return tv{Term{fmt.Sprintf("(ipay_V %s)", a.S), SV}, nil}, nil
	case "as_int":
		// as_int(x): the integer held by interface value x
		a, err := c.tr(args[0])
		if err != nil {
			return tv{}, err
		}
		return tv{Term{fmt.Sprintf("(ipay_I %s)", a.S), SInt}, types.Typ[types.Int]}, nil
	case "as_bytes":
		// as_bytes(x): the []byte held by interface value x
		a, err := c.tr(args[0])
		if err != nil {
			return tv{}, err
		}
		return tv{Term{fmt.Sprintf("(ipay_V %s)", a.S), SV}, types.NewSlice(types.Typ[types.Uint8])}, nil
	case "addr":
		// addr(x.f): address of field f of the object x points to
		sel, ok := args[0].(*ast.SelectorExpr)
		if !ok {
			return tv{}, fmt.Errorf("addr() needs a field selector")
		}
		base, err := c.tr(sel.X)
		if err != nil {
			return tv{}, err
		}
		if base.ty == nil {
			return tv{}, fmt.Errorf("addr(): untyped base")
		}
		t := deref(base.ty)
		p := findFieldPath(t, sel.Sel.Name, 0)
		if len(p) != 1 {
			return tv{}, fmt.Errorf("addr(): no direct field %s", sel.Sel.Name)
		}
		f := t.Underlying().(*types.Struct).Field(p[0])
		return tv{Term{fmt.Sprintf("(%s %s)", fr.enc.faFun(t, f.Name()), base.S), SInt}, types.NewPointer(f.Type())}, nil
	case "isfresh":
		// the object was allocated after the reference state (old): call entry / function entry
		a, err := c.tr(args[0])
		if err != nil {
			return tv{}, err
		}
		if c.old == nil || c.old.hw == "" {
			return tv{}, fmt.Errorf("isfresh() not available here")
		}
		return tv{Term{fmt.Sprintf("(>= %s %s)", a.S, c.old.hw), SBool}, boolT}, nil
	case "contains":
		// contains(s, x): some element of the slice s (elements of sort V) is x
		sl, err := c.tr(args[0])
		if err != nil {
			return tv{}, err
		}
		x, err := c.tr(args[1])
		if err != nil {
			return tv{}, err
		}
		st, ok := sl.ty.Underlying().(*types.Slice)
		if !ok || sortOf(st.Elem()) != SV || x.Sort != SV {
			return tv{}, fmt.Errorf("contains() needs a slice with elements of sort V and such an element")
		}
		return tv{Term{fmt.Sprintf("(sl_has %s %s)", sl.S, x.S), SBool}, boolT}, nil
	case "isempty":
		m, err := c.tr(args[0])
		if err != nil {
			return tv{}, err
		}
		mt, ok := m.ty.Underlying().(*types.Map)
		if !ok {
			return tv{}, fmt.Errorf("isempty() needs a map")
		}
		dom, _ := vc.keyMap(mt)
		return tv{Term{fmt.Sprintf("(= (select %s %s) ((as const (Array %s Bool)) false))", vc.cur(c.st, dom), m.S, sortOf(mt.Key())), SBool}, boolT}, nil
	case "int", "int64", "int32", "uint", "uint64", "uint32", "string":
		return c.tr(args[0])
	case "deref":
		a, err := c.tr(args[0])
		if err != nil {
			return tv{}, err
		}
		return c.derefTV(a)
	case "isnil":
		a, err := c.tr(args[0])
		if err != nil {
			return tv{}, err
		}
		if a.Sort == SInt {
			return tv{Term{eq(a.S, "0"), SBool}, boolT}, nil
		}
		return tv{Term{eq(a.S, "vnil"), SBool}, boolT}, nil
	case "dyntype":
		// dyntype(x, "pkg.T"): dynamic type of interface value x is T
		a, err := c.tr(args[0])
		if err != nil {
			return tv{}, err
		}
		lit, ok := args[1].(*ast.BasicLit)
		if !ok {
			return tv{}, fmt.Errorf("dyntype needs a string literal")
		}
		s, _ := strconv.Unquote(lit.Value)
		id, ok := vc.typeTags[s]
		if !ok {
			id = len(vc.typeTags) + 1
			vc.typeTags[s] = id
			vc.tagOrder = append(vc.tagOrder, s)
		}
		return tv{Term{fmt.Sprintf("(and (not (= %s vnil)) (= (itag %s) %d))", a.S, a.S, id), SBool}, boolT}, nil
	}
	// ghost map
	if g, ok := fr.enc.db.Ghosts[name]; ok {
		key := vc.keyGhost(g)
		if g.Key == nil {
			return tv{Term{vc.cur(c.st, key), g.Val}, nil}, nil
		}
		if len(args) != 1 {
			return tv{}, fmt.Errorf("ghost map %s takes one key", name)
		}
		k, err := c.tr(args[0])
		if err != nil {
			return tv{}, err
		}
		if k.Sort != *g.Key {
			return tv{}, fmt.Errorf("ghost %s: key sort %s, want %s", name, k.Sort, *g.Key)
		}
		if (name == "chsent" || name == "chrecvd") && k.ty != nil {
			key = vc.keyGhostChan(g, k.ty)
		}
		return tv{Term{fmt.Sprintf("(select %s %s)", vc.cur(c.st, key), k.S), g.Val}, nil}, nil
	}
	if sf, ok := fr.enc.db.SpecFns[name]; ok {
		if len(args) != len(sf.Args) {
			return tv{}, fmt.Errorf("spec function %s takes %d args", name, len(sf.Args))
		}
		var as []string
		for i, a := range args {
			t, err := c.tr(a)
			if err != nil {
				return tv{}, err
			}
			if t.S == "vnil" && sf.Args[i] == SInt {
				t.Term = Term{"0", SInt}
			}
			if t.Sort != sf.Args[i] {
				return tv{}, fmt.Errorf("spec function %s arg %d: sort %s, want %s", name, i, t.Sort, sf.Args[i])
			}
			as = append(as, t.S)
		}
		vc.usedSpecs[name] = true
		if len(as) == 0 {
			return tv{Term{name, sf.Res}, nil}, nil
		}
		return tv{Term{"(" + name + " " + strings.Join(as, " ") + ")", sf.Res}, nil}, nil
	}
	return tv{}, fmt.Errorf("unknown spec function %q", name)
}

// findFieldPath finds a field by name ignoring export rules (embedded structs included).
func findFieldPath(t types.Type, name string, depth int) []int {
	su, ok := deref(t).Underlying().(*types.Struct)
	if !ok || depth > 3 {
		return nil
	}
	for i := 0; i < su.NumFields(); i++ {
		if su.Field(i).Name() == name {
			return []int{i}
		}
	}
	for i := 0; i < su.NumFields(); i++ {
		if su.Field(i).Embedded() {
			if p := findFieldPath(su.Field(i).Type(), name, depth+1); p != nil {
				return append([]int{i}, p...)
			}
		}
	}
	return nil
}
