package main

import (
	"encoding/json"
	"fmt"
	"go/types"
	"os"
	"path/filepath"
	"reflect"
	"sort"
	"strings"
)

// C18 (static part): the Go structs that are marshalled into API requests are
// compared, through go/types, with the JSON schemas published under
// docs/api/schemas.  For every pair the check establishes:
//   - every key the schema requires is emitted by the struct (a field with that
//     JSON name exists) with a compatible JSON type;
//   - every key the struct can emit is a property of the schema, unless the
//     schema leaves additional properties open, or the field is omitempty and
//     listed below as "never set when the struct is used as a request" (that
//     claim is discharged by a contract on the function building the request);
//   - the JSON types of common keys are compatible.
// The check reads the declarations of the real code on every run.

type schemaPair struct {
	schema   string   // file under docs/api/schemas
	subpath  []string // path into the schema (properties/items)
	pkg, typ string
	neverSet []string // JSON keys that contracts show to be empty in requests
	why      string
}

var schemaPairs = []schemaPair{
	{"http-batch-request-schema.json", nil, "github.com/git-lfs/git-lfs/v3/tq", "batchRequest", nil, ""},
	{"http-batch-request-schema.json", []string{"properties", "objects", "items"}, "github.com/git-lfs/git-lfs/v3/tq", "Transfer",
		[]string{"name", "actions", "_links", "error", "path"}, "(tq.batch).ToTransfers builds request objects with only oid and size set (contract)"},
	{"http-lock-create-request-schema.json", nil, "github.com/git-lfs/git-lfs/v3/locking", "lockRequest", nil, ""},
	{"http-lock-create-request-schema.json", []string{"properties", "ref"}, "github.com/git-lfs/git-lfs/v3/locking", "lockRef", nil, ""},
	{"http-lock-delete-request-schema.json", nil, "github.com/git-lfs/git-lfs/v3/locking", "unlockRequest", nil, ""},
	{"http-lock-delete-request-schema.json", []string{"properties", "ref"}, "github.com/git-lfs/git-lfs/v3/locking", "lockRef", nil, ""},
}

type jsonField struct {
	key       string
	omitempty bool
	asString  bool
	typ       types.Type
}

func jsonFields(t types.Type) []jsonField {
	su, ok := t.Underlying().(*types.Struct)
	if !ok {
		return nil
	}
	var out []jsonField
	for i := 0; i < su.NumFields(); i++ {
		f := su.Field(i)
		if !f.Exported() {
			continue
		}
		tag := reflect.StructTag(su.Tag(i)).Get("json")
		name := f.Name()
		omit := false
		asString := false
		if tag != "" {
			parts := strings.Split(tag, ",")
			if parts[0] == "-" {
				continue
			}
			if parts[0] != "" {
				name = parts[0]
			}
			for _, p := range parts[1:] {
				if p == "omitempty" {
					omit = true
				}
				if p == "string" {
					asString = true
				}
			}
		}
		out = append(out, jsonField{name, omit, asString, f.Type()})
	}
	return out
}

func jsonKind(t types.Type) string {
	switch u := t.Underlying().(type) {
	case *types.Basic:
		switch {
		case u.Info()&types.IsString != 0:
			return "string"
		case u.Info()&types.IsBoolean != 0:
			return "boolean"
		case u.Info()&types.IsNumeric != 0:
			return "number"
		}
	case *types.Slice, *types.Array:
		return "array"
	case *types.Struct, *types.Map:
		if types.TypeString(t, nil) == "time.Time" {
			return "string"
		}
		return "object"
	case *types.Pointer:
		return jsonKind(u.Elem())
	}
	return "any"
}

func schemaCheck(w *World, cfg *solveCfg) []*Obligation {
	var obls []*Obligation
	dir := filepath.Join(w.repoDir, "docs", "api", "schemas")
	for _, sp := range schemaPairs {
		name := fmt.Sprintf("%s.%s#schema@%s%s", sp.pkg[strings.LastIndex(sp.pkg, "/")+1:], sp.typ, sp.schema, strings.Join(sp.subpath, "/"))
		ob := &Obligation{Name: name, Kind: "const", Expect: "unsat", Solver: "go/types struct-tag conformance", Desc: "request struct conforms to the published JSON schema"}
		obls = append(obls, ob)
		b, err := os.ReadFile(filepath.Join(dir, sp.schema))
		if err != nil {
			ob.Status = "error"
			ob.Model = err.Error()
			continue
		}
		var root map[string]interface{}
		if err := json.Unmarshal(b, &root); err != nil {
			ob.Status = "error"
			ob.Model = err.Error()
			continue
		}
		node := root
		okPath := true
		for _, p := range sp.subpath {
			n, ok := node[p].(map[string]interface{})
			if !ok {
				okPath = false
				break
			}
			node = n
		}
		if !okPath {
			ob.Status = "error"
			ob.Model = "schema path not found: " + strings.Join(sp.subpath, "/")
			continue
		}
		var T types.Type
		for _, p := range w.prog.AllPackages() {
			if p.Pkg.Path() == sp.pkg {
				if o := p.Pkg.Scope().Lookup(sp.typ); o != nil {
					T = o.Type()
				}
			}
		}
		if T == nil {
			ob.Status = "missing"
			ob.Model = "type " + sp.pkg + "." + sp.typ + " not found"
			continue
		}
		props, _ := node["properties"].(map[string]interface{})
		closed := false
		if ap, ok := node["additionalProperties"].(bool); ok && !ap {
			closed = true
		}
		var problems []string
		fields := jsonFields(T)
		byKey := map[string]jsonField{}
		for _, f := range fields {
			byKey[f.key] = f
		}
		if req, ok := node["required"].([]interface{}); ok {
			for _, r := range req {
				k := r.(string)
				if _, ok := byKey[k]; !ok {
					problems = append(problems, fmt.Sprintf("required key %q is not emitted by %s", k, sp.typ))
				}
			}
		}
		never := map[string]bool{}
		for _, k := range sp.neverSet {
			never[k] = true
		}
		for _, f := range fields {
			p, inSchema := props[f.key].(map[string]interface{})
			if !inSchema {
				if !closed {
					continue
				}
				if f.omitempty && never[f.key] {
					continue
				}
				problems = append(problems, fmt.Sprintf("key %q can be emitted but the schema forbids additional properties", f.key))
				continue
			}
			want, _ := p["type"].(string)
			got := jsonKind(f.typ)
			if f.asString {
				got = "string"
			}
			if want != "" && got != "any" && want != got {
				problems = append(problems, fmt.Sprintf("key %q: schema type %s, Go field marshals as %s", f.key, want, got))
			}
		}
		sort.Strings(problems)
		if len(problems) == 0 {
			ob.Status = "ok"
			if sp.why != "" {
				ob.Desc += "; " + sp.why
			}
		} else {
			ob.Status = "fail"
			ob.Model = strings.Join(problems, "\n")
		}
	}
	return obls
}

func init() {
	extraChecks["schema"] = schemaCheck
}
