package main

import (
	"encoding/json"
	"flag"
	"fmt"
	"os"
	"path/filepath"
	"sort"
	"strings"
	"time"

	"golang.org/x/tools/go/packages"
	"golang.org/x/tools/go/ssa"
	"golang.org/x/tools/go/ssa/ssautil"
)

type World struct {
	prog     *ssa.Program
	pkgs     []*packages.Package
	db       *ContractDB
	modPath  string
	repoDir  string
	verifDir string
	repoFns  []*ssa.Function
	fnByKey  map[string]*ssa.Function
	debug    bool
	loadErrs []string
}

func loadWorld(repoDir, verifDir string, patterns []string) (*World, error) {
	w := &World{repoDir: repoDir, verifDir: verifDir, modPath: "github.com/git-lfs/git-lfs/v3", fnByKey: map[string]*ssa.Function{}}
	cfg := &packages.Config{Mode: packages.LoadAllSyntax, Dir: repoDir, BuildFlags: []string{"-tags=verif"},
		Env: append(os.Environ(), "GOFLAGS=-mod=mod", "GOPROXY=off", "GOSUMDB=off", "GOTOOLCHAIN=local")}
	pkgs, err := packages.Load(cfg, patterns...)
	if err != nil {
		return nil, err
	}
	for _, p := range pkgs {
		for _, e := range p.Errors {
			w.loadErrs = append(w.loadErrs, e.Error())
		}
	}
	w.pkgs = pkgs
	prog, _ := ssautil.AllPackages(pkgs, ssa.GlobalDebug|ssa.InstantiateGenerics)
	prog.Build()
	w.prog = prog
	db, err := loadAllContracts(filepath.Join(verifDir, "spec"), repoDir, w.modPath)
	if err != nil {
		return nil, err
	}
	w.db = db
	e := &encoder{prog: prog, modPath: w.modPath}
	w.repoFns = e.collectRepoFns()
	for _, f := range w.repoFns {
		w.fnByKey[f.String()] = f
	}
	return w, nil
}

type PropConfig struct {
	ID          string   `json:"id"`
	SafeAll     bool     `json:"safe_all"`
	Assumptions []string `json:"assumptions"`
	Extras      []string `json:"extras"`
	MinObl      int      `json:"min_obligations"`
	Level       string   `json:"level"`
}

type Finding struct {
	Kind string // finding | fixed
	Prop string
	Obl  string
	Text string
}

func loadFindings(path string) []Finding {
	b, err := os.ReadFile(path)
	if err != nil {
		return nil
	}
	var out []Finding
	for _, l := range strings.Split(string(b), "\n") {
		l = strings.TrimSpace(l)
		if l == "" || strings.HasPrefix(l, "#") {
			continue
		}
		var f Finding
		if strings.HasPrefix(l, "finding:") {
			f.Kind = "finding"
			l = strings.TrimSpace(l[len("finding:"):])
		} else if strings.HasPrefix(l, "fixed:") {
			f.Kind = "fixed"
			l = strings.TrimSpace(l[len("fixed:"):])
		} else {
			continue
		}
		for _, w := range strings.Fields(l) {
			if strings.HasPrefix(w, "property=") {
				f.Prop = w[len("property="):]
			} else if strings.HasPrefix(w, "obligation=") {
				f.Obl = w[len("obligation="):]
			}
		}
		if i := strings.Index(l, " :: "); i >= 0 {
			f.Text = l[i+4:]
		} else {
			f.Text = l
		}
		out = append(out, f)
	}
	return out
}

func main() {
	if len(os.Args) < 2 {
		fmt.Fprintln(os.Stderr, "usage: govc check <Cxx> [--tier quick|thorough] | dump <func> | list")
		os.Exit(2)
	}
	cmd := os.Args[1]
	fs := flag.NewFlagSet(cmd, flag.ExitOnError)
	tier := fs.String("tier", envOr("VERIF_TIER", "quick"), "quick|thorough")
	repo := fs.String("repo", "/repo", "repository")
	verif := fs.String("verif", "/verif", "verif dir")
	debug := fs.Bool("debug", false, "debug")
	claim := fs.Bool("claim", false, "rewrite the claims file from this run (maintenance; never used by registered checks)")
	keep := fs.Bool("keep", false, "keep smt files")
	var pos []string
	args := os.Args[2:]
	for len(args) > 0 && !strings.HasPrefix(args[0], "-") {
		pos = append(pos, args[0])
		args = args[1:]
	}
	fs.Parse(args)
	pos = append(pos, fs.Args()...)
	switch cmd {
	case "check":
		if len(pos) < 1 {
			fmt.Fprintln(os.Stderr, "check needs a property id")
			os.Exit(2)
		}
		os.Exit(runCheck(pos[0], *tier, *repo, *verif, *debug, *claim, *keep))
	case "dump":
		w, err := loadWorld(*repo, *verif, []string{"./..."})
		if err != nil {
			fmt.Fprintln(os.Stderr, err)
			os.Exit(2)
		}
		for _, k := range pos {
			found := false
			for key, f := range w.fnByKey {
				if key == k || strings.HasSuffix(key, k) {
					f.WriteTo(os.Stdout)
					found = true
				}
			}
			if !found {
				fmt.Println("not found:", k)
			}
		}
	case "replay":
		if len(pos) < 1 {
			os.Exit(2)
		}
		b, err := os.ReadFile(pos[0])
		if err != nil {
			fmt.Fprintln(os.Stderr, err)
			os.Exit(2)
		}
		os.Stdout.Write(b)
		os.Exit(runReplayFile(pos[0], *repo))
	default:
		fmt.Fprintln(os.Stderr, "unknown command", cmd)
		os.Exit(2)
	}
}

func envOr(k, d string) string {
	if v := os.Getenv(k); v != "" {
		return v
	}
	return d
}

type oblRecord struct {
	Name   string  `json:"name"`
	Kind   string  `json:"kind"`
	Status string  `json:"status"`
	Solver string  `json:"solver,omitempty"`
	TimeS  float64 `json:"time_s"`
	Desc   string  `json:"goal,omitempty"`
	Pos    string  `json:"pos,omitempty"`
}

func runCheck(id, tier, repoDir, verifDir string, debug, claim, keep bool) int {
	t0 := time.Now()
	seed := 0
	fmt.Sscanf(os.Getenv("VERIF_SEED"), "%d", &seed)
	var pc PropConfig
	pc.ID = id
	if b, err := os.ReadFile(filepath.Join(verifDir, "props", id+".json")); err == nil {
		if err := json.Unmarshal(b, &pc); err != nil {
			fmt.Fprintln(os.Stderr, "bad prop config:", err)
			return 2
		}
	} else {
		fmt.Fprintln(os.Stderr, "no such property config:", id)
		return 2
	}
	w, err := loadWorld(repoDir, verifDir, []string{"./..."})
	if err != nil {
		fmt.Fprintln(os.Stderr, "load:", err)
		return 2
	}
	w.debug = debug
	if len(w.loadErrs) > 0 {
		fmt.Println("ERROR: /repo does not type-check with -tags verif; nothing can be proved about it:")
		for _, e := range w.loadErrs {
			fmt.Println("  ", e)
		}
		return 2
	}
	scratch := filepath.Join(envOr("VERIF_SCRATCH", os.TempDir()), fmt.Sprintf("govc-%s-%d", id, os.Getpid()))
	os.MkdirAll(scratch, 0o755)
	if !keep {
		defer os.RemoveAll(scratch)
	} else {
		fmt.Println("smt files in", scratch)
	}
	cfg := &solveCfg{dir: scratch, timeoutS: 20, seed: seed, workers: 16}
	if tier == "thorough" {
		cfg.timeoutS = 60
		cfg.allSolv = true
	}

	claims := loadClaims(filepath.Join(verifDir, "props", id+".claims"))
	findings := loadFindings(filepath.Join(verifDir, "known_findings.txt"))

	// regular-expression constants (checked first: they add linking axioms)
	preObls := regexPre(w, id, cfg)

	var results []*FuncResult
	var jobs []job
	var missing []string
	var keys []string
	for k, ct := range w.db.ByKey {
		if ct.Trusted {
			continue
		}
		for _, p := range ct.Props {
			if p == id {
				keys = append(keys, k)
			}
		}
	}
	sort.Strings(keys)
	var assumedContracts []string
	for _, k := range keys {
		ct := w.db.ByKey[k]
		fn := w.fnByKey[k]
		if fn == nil {
			missing = append(missing, k)
			continue
		}
		if ct.NoVerify {
			assumedContracts = append(assumedContracts, k)
			nChecked := 0
			for _, cl := range ct.Ensures {
				if hasTag(cl.Tags, "checked") {
					nChecked++
				}
			}
			if len(ct.Asserts) == 0 && len(ct.Loops) == 0 && nChecked == 0 {
				continue
			}
			// an assumed contract that pins calls made by the body ("at call ..."):
			// frame and postconditions stay assumed, the call-site assertions are
			// checked against the real body
			// (verified against a copy of the contract without frame and
			// postconditions, so that no frame obligation is generated - and none
			// assumed - for this body; the vacuity covers stay on)
			ct2 := *ct
			ct2.HasMods, ct2.Mods, ct2.Ensures, ct2.NoVerify = false, nil, nil, false
			for _, cl := range ct.Ensures {
				if hasTag(cl.Tags, "checked") {
					// a postcondition of an assumed contract that is nevertheless proved
					ct2.Ensures = append(ct2.Ensures, cl)
				}
			}
			r := w.verifyFunction(fn, &ct2, id, false)
			r.Contract = ct
			results = append(results, r)
			continue
		}
		tv0 := time.Now()
		r := w.verifyFunction(fn, ct, id, pc.SafeAll)
		if debug {
			fmt.Printf("  encode %s %.1fs\n", k, time.Since(tv0).Seconds())
		}
		results = append(results, r)
	}
	// select obligations
	var checked []*Obligation
	unclaimed := 0
	for _, r := range results {
		if r.Err != "" {
			continue
		}
		for _, ob := range r.VC.obls {
			if ob.Kind == "safe" && !(claim || claims[ob.Name]) {
				unclaimed++
				continue
			}
			checked = append(checked, ob)
			for _, f := range findings {
				if f.Kind == "finding" && f.Prop == id && f.Obl == ob.Name {
					ob.Known = true
				}
			}
			jobs = append(jobs, job{r.VC, ob})
		}
	}
	td0 := time.Now()
	w.db.dischargeAll(jobs, cfg)
	if debug {
		fmt.Printf("  discharge obligations %.1fs\n", time.Since(td0).Seconds())
	}
	td0 = time.Now()
	// cover queries run afterwards, without the assumptions of obligations that
	// were not discharged (a failed obligation must not make later code look vacuous)
	var cjobs []job
	for _, r := range results {
		if r.Err != "" {
			continue
		}
		r.VC.dropFacts = map[int]bool{}
		for _, ob := range r.VC.obls {
			if ob.Status != "unsat" && ob.AssumeIdx >= 0 {
				r.VC.dropFacts[ob.AssumeIdx] = true
			}
		}
		for _, ob := range r.Covers {
			cjobs = append(cjobs, job{r.VC, ob})
		}
	}
	w.db.dischargeAll(cjobs, cfg)
	if debug {
		fmt.Printf("  discharge covers %.1fs\n", time.Since(td0).Seconds())
	}

	// property-specific extra obligations (static / regex / schema)
	extraObls := preObls
	for _, ex := range pc.Extras {
		f := extraChecks[ex]
		if f == nil {
			fmt.Println("ERROR: unknown extra check", ex)
			return 2
		}
		extraObls = append(extraObls, f(w, cfg)...)
	}

	// classify
	violations := 0
	knownHit := map[int]bool{}
	outDir := filepath.Join(verifDir, "replay", "out")
	os.MkdirAll(outDir, 0o755)
	report := func(ob *Obligation, vc *VC, reason string) {
		for i, f := range findings {
			if f.Kind == "finding" && f.Prop == id && f.Obl == ob.Name {
				if !knownHit[i] {
					fmt.Printf("KNOWN-FINDING: property=%s %s :: %s\n", id, ob.Name, f.Text)
					knownHit[i] = true
				}
				return
			}
		}
		violations++
		path := filepath.Join(outDir, id+"__"+sanitizeFile(ob.Name)+".replay")
		reproduced := writeReplay(w, id, ob, vc, path, reason)
		suffix := ""
		if !reproduced {
			suffix = " no-failing-input-found"
		}
		fmt.Printf("VIOLATION property=%s replay=%s obligation=%s%s\n", id, path, ob.Name, suffix)
	}
	for _, k := range missing {
		ob := &Obligation{Name: shortKey(k) + "#contract-target-missing", Kind: "structure", Status: "missing", Desc: "function under contract no longer exists: " + k}
		report(ob, nil, "the function this proof is about is gone (renamed or deleted); the property cannot be shown for it")
	}
	nOb, nDis := 0, 0
	var recs, knownRecs []oblRecord
	var solverTime float64
	backends := map[string]int{}
	for _, r := range results {
		if r.Err != "" {
			ob := &Obligation{Name: r.Func + "#encode", Kind: "structure", Status: "error", Desc: r.Err}
			report(ob, r.VC, "the function could not be encoded: "+r.Err)
			continue
		}
		for _, ob := range r.VC.obls {
			if ob.Status == "" {
				continue
			}
			solverTime += ob.TimeS
			if ob.Known && ob.Status != "unsat" {
				// a recorded finding: reported, not counted among the proof obligations
				knownRecs = append(knownRecs, oblRecord{ob.Name, ob.Kind, ob.Status, ob.Solver, round3(ob.TimeS), ob.Desc, ob.Pos})
				report(ob, r.VC, "")
				continue
			}
			nOb++
			recs = append(recs, oblRecord{ob.Name, ob.Kind, ob.Status, ob.Solver, round3(ob.TimeS), ob.Desc, ob.Pos})
			if ob.Status == "unsat" {
				nDis++
				backends[ob.Solver]++
				continue
			}
			if ob.Kind == "safe" && claim {
				continue // not claimable
			}
			report(ob, r.VC, "")
		}
		coverStatus := map[string]string{}
		for _, ob := range r.Covers {
			coverStatus[ob.Name] = ob.Status
		}
		for _, ob := range r.Covers {
			solverTime += ob.TimeS
			if ob.Sub == "callpre" {
				continue // only consulted through its partner
			}
			if ob.Sub == "callret" {
				if ob.Status == "unsat" && coverStatus[ob.PairOf] == "sat" && !isDeclaredDead(r.Contract, ob.Name) {
					nOb++
					recs = append(recs, oblRecord{ob.Name, ob.Kind, ob.Status, ob.Solver, round3(ob.TimeS), ob.Desc, ""})
					report(ob, r.VC, "vacuity guard: the call site is reachable but no state satisfies what the callee's contract ensures there, so everything after this call would pass vacuously")
				} else if ob.Status == "sat" {
					nOb++
					nDis++
					backends[ob.Solver]++
					recs = append(recs, oblRecord{ob.Name, ob.Kind, ob.Status, ob.Solver, round3(ob.TimeS), ob.Desc, ""})
				}
				continue
			}
			nOb++
			recs = append(recs, oblRecord{ob.Name, ob.Kind, ob.Status, ob.Solver, round3(ob.TimeS), ob.Desc, ""})
			if ob.Status == "unsat" && isDeclaredDead(r.Contract, ob.Name) {
				nDis++
				continue
			}
			if ob.Status == "unsat" {
				// vacuous: assumptions contradictory or sink/return unreachable
				report(ob, r.VC, "vacuity guard: the assumptions are contradictory or this point is unreachable, so obligations here would pass vacuously")
				continue
			}
			nDis++
			backends[ob.Solver]++
		}
	}
	for _, ob := range extraObls {
		nOb++
		solverTime += ob.TimeS
		recs = append(recs, oblRecord{ob.Name, ob.Kind, ob.Status, ob.Solver, round3(ob.TimeS), ob.Desc, ob.Pos})
		if ob.Status == "unsat" || ob.Status == "ok" {
			nDis++
			backends[ob.Solver]++
			continue
		}
		report(ob, nil, ob.Model)
	}
	// claimed obligations that vanished although their function still exists are fine;
	// but a run with too few obligations is suspicious (vacuity of the harness itself)
	if nOb < pc.MinObl {
		ob := &Obligation{Name: id + "#obligation-count", Kind: "vacuity", Status: "too-few", Desc: fmt.Sprintf("only %d obligations generated, expected at least %d", nOb, pc.MinObl)}
		report(ob, nil, "harness vacuity guard")
	}
	// known findings that no longer fail are engine canaries
	for i, f := range findings {
		if f.Kind == "finding" && f.Prop == id && !knownHit[i] {
			fmt.Printf("NOTE: known finding %s did not fail in this run (repaired, or obligation renamed)\n", f.Obl)
		}
	}

	if claim {
		var names []string
		for _, r := range results {
			for _, ob := range r.VC.obls {
				if ob.Kind == "safe" && ob.Status == "unsat" && ob.TimeS < 3 {
					names = append(names, ob.Name)
				}
			}
		}
		sort.Strings(names)
		os.WriteFile(filepath.Join(verifDir, "props", id+".claims"), []byte(strings.Join(names, "\n")+"\n"), 0o644)
		fmt.Printf("claims: %d safe obligations recorded\n", len(names))
	}

	// evidence
	writeEvidence(w, &pc, id, tier, seed, results, recs, knownRecs, nOb, nDis, unclaimed, violations, backends, solverTime, assumedContracts, time.Since(t0).Seconds())
	fmt.Printf("%s: %d obligations, %d discharged, %d violations, %d known findings, %.1fs (solver %.1fs)\n", id, nOb, nDis, violations, len(knownHit), time.Since(t0).Seconds(), solverTime)
	if debug {
		for _, r := range results {
			for _, wn := range r.VC.warnings {
				fmt.Println("  warn:", wn)
			}
			for _, ob := range r.VC.obls {
				if ob.Status != "" && ob.Status != "unsat" {
					fmt.Printf("  %s %s [%s]\n     goal: %s\n", ob.Status, ob.Name, ob.Pos, ob.Desc)
				}
			}
		}
	}
	if violations > 0 {
		return 1
	}
	return 0
}

func shortKey(k string) string {
	if i := strings.LastIndex(k, "/"); i >= 0 {
		pre := ""
		if strings.HasPrefix(k, "(*") {
			pre = "(*"
		} else if strings.HasPrefix(k, "(") {
			pre = "("
		}
		return pre + k[i+1:]
	}
	return k
}

func round3(f float64) float64 { return float64(int(f*1000+0.5)) / 1000 }

func loadClaims(path string) map[string]bool {
	m := map[string]bool{}
	b, err := os.ReadFile(path)
	if err != nil {
		return m
	}
	for _, l := range strings.Split(string(b), "\n") {
		l = strings.TrimSpace(l)
		if l != "" {
			m[l] = true
		}
	}
	return m
}

var extraChecks = map[string]func(w *World, cfg *solveCfg) []*Obligation{}

func isDeclaredDead(ct *Contract, name string) bool {
	if ct == nil {
		return false
	}
	for _, d := range ct.Dead {
		if strings.HasSuffix(name, "@"+d) || strings.Contains(name, "@"+d+"#") || strings.HasSuffix(name, "/"+d) {
			return true
		}
	}
	return false
}
