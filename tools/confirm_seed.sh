#!/bin/bash
# usage: confirm_seed.sh <id> <seed-dir> <demo-dest-relative-path> <go test -run regex> <pkg (./x)>
# Confirms a seeded change in a scratch worktree: demo passes without the patch, fails with it,
# the tree builds and the existing unit tests still pass with the patch.  Removes the worktree.
set -u
id=$1; sd=$2; dest=$3; run=$4; pkg=$5
export GOFLAGS=-mod=mod GOPROXY=off GOSUMDB=off GOTOOLCHAIN=local
export GIT_CONFIG_COUNT=1 GIT_CONFIG_KEY_0=init.defaultBranch GIT_CONFIG_VALUE_0=master
wt=/tmp/cf/$id; rm -rf $wt; mkdir -p /tmp/cf
git -C /repo worktree add -q --detach $wt ${BASE:-0bace51} || exit 2
log=$sd/confirm.log; : > $log
cd $wt
cp $sd/${DEMO:-demo_test.go} $wt/$dest
echo "== demo without patch" >> $log
if go test -vet=off -count=1 -run "$run" $pkg >> $log 2>&1; then a=pass; else a=FAIL; fi
git apply $sd/patch.diff || { echo "patch does not apply" >> $log; a=$a/noapply; }
echo "== build with patch" >> $log
if go build ./... >> $log 2>&1; then b=ok; else b=BUILDFAIL; fi
echo "== demo with patch" >> $log
if go test -vet=off -count=1 -run "$run" $pkg >> $log 2>&1; then c=PASS; else c=fail; fi
rm -f $wt/$dest
echo "== full tests with patch" >> $log
if go test -vet=off -count=1 ./... >> $log 2>&1; then d=ok; else d=TESTFAIL; fi
cd /; git -C /repo worktree remove --force $wt
echo "$id: demo-without=$a build=$b demo-with=$c tests-with=$d" | tee -a $log
