#!/bin/bash
# run every registered quick check on the current trees; prints one line per property
cd /verif
fail=0
for id in $(python3 -c "import json; print(' '.join(c['property_id'] for c in json.load(open('MANIFEST.json'))['checks']))"); do
  out=$(VERIF_SEED=${VERIF_SEED:-1} bin/govc check $id --tier quick 2>&1); rc=$?
  echo "$out" | tail -1
  if [ $rc -ne 0 ]; then fail=1; echo "$out" | grep VIOLATION | head -3 | cut -c1-200; fi
done
exit $fail
