#!/usr/bin/env python3
"""save_seed.py <id> <seed-dir> <demo-dest> <run-regex> <pkg> <needs...>: copy a confirmed seeded change into /verif/seeded/<name>/"""
import sys,os,shutil,json
pid,sd,dest,run,pkg=sys.argv[1:6]; needs=" ".join(sys.argv[6:])
name=os.environ.get("SEEDNAME",pid)
out="/verif/seeded/"+name; os.makedirs(out,exist_ok=True)
shutil.copy(sd+"/patch.diff",out+"/patch.diff")
demo=os.environ.get("DEMO","demo_test.go")
shutil.copy(sd+"/"+demo,out+"/"+demo)
for f in ("notes.md","confirm.log"):
    if os.path.exists(sd+"/"+f): shutil.copy(sd+"/"+f,out+"/"+f)
conf=open(sd+"/confirm.log").read().strip().split("\n")[-1] if os.path.exists(sd+"/confirm.log") else ""
meta={"property":pid,"origin":"independent sub-agent given only the property text and a scratch worktree",
 "needs_to_manifest":needs,"demo_file":demo,"demo_dest_in_repo":dest,
 "demo_cmd":"cp %s <worktree>/%s && cd <worktree> && go test -vet=off -count=1 -run '%s' %s"%(demo,dest,run,pkg),
 "confirmed_by":"tools/confirm_seed.sh in a scratch worktree of /repo at 0bace51 (removed afterwards)","confirmation":conf,
 "detected_by":[]}
json.dump(meta,open(out+"/meta.json","w"),indent=1)
print("saved",out)
