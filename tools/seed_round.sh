#!/bin/sh
# usage: seed_round.sh <dir> <id>...   prepares <dir>/<id>/{wt,out,property.txt} for independent seeding
# agents: a scratch worktree of /repo HEAD without the contract files, and the property text only.
# The prompt the agents get is tools/seed_prompt.txt (copied to <dir>/prompt.txt).
d=$1; shift
mkdir -p $d; cp /verif/tools/seed_prompt.txt $d/prompt.txt
for id in "$@"; do
  wt=$d/$id/wt; mkdir -p $d/$id/out
  git -C /repo worktree add -q --detach $wt HEAD && (cd $wt && for f in $(git ls-files '*verif_contracts.go'); do git update-index --skip-worktree $f; rm -f $f; done)
done
python3 - "$d" "$@" <<'EOF'
import json,sys
d=sys.argv[1]; ids=set(sys.argv[2:])
for l in open('/verif/properties.jsonl'):
    p=json.loads(l)
    if p['id'] in ids:
        open('%s/%s/property.txt'%(d,p['id']),'w').write("Property %s: %s\n\n%s\n\nQuantified over: %s\n\nRelevant code (anchors): %s\n"%(p['id'],p['title'],p['statement'],p['quantifier']['text'],", ".join(p['anchors']['files'])))
EOF
