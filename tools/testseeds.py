import json,subprocess,os,sys
V="/verif"; suf=sys.argv[1]; only=sys.argv[2:]
wt="/var/tmp/rtest"
subprocess.run(["git","-C","/repo","worktree","add","--detach","-q",wt,"HEAD"])
# carry uncommitted contract work of /repo over into the scratch worktree
d=subprocess.run(["git","-C","/repo","diff","HEAD"],capture_output=True,text=True).stdout
if d.strip():
    subprocess.run(["git","-C",wt,"apply"],input=d,text=True)
    subprocess.run(["git","-C",wt,"add","-A"]); subprocess.run(["git","-C",wt,"commit","-qm","wip"])
for name in sorted(os.listdir(V+"/seeded")):
    if not name.endswith(suf): continue
    if only and name.split("-")[0] not in only: continue
    pid=json.load(open(V+"/seeded/%s/meta.json"%name))["property"]
    a=subprocess.run(["git","-C",wt,"apply",V+"/seeded/%s/patch.diff"%name],capture_output=True,text=True)
    if a.returncode: print(name,"NOAPPLY",a.stderr[:100]); continue
    r=subprocess.run([V+"/bin/govc","check",pid,"--repo",wt],capture_output=True,text=True,env=dict(os.environ,VERIF_NO_EVIDENCE="1"))
    v=[l for l in r.stdout.split("\n") if l.startswith("VIOLATION")]
    print(name,len(v),(v[0].split("obligation=")[-1][:150] if v else "MISSED"))
    subprocess.run(["git","-C",wt,"checkout","--","."])
subprocess.run(["git","-C","/repo","worktree","remove","--force",wt])
