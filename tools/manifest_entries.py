#!/usr/bin/env python3
"""Regenerates /verif/MANIFEST.json from the table below (single source for the check list)."""
import json
TECH = "contract-based deductive verification (weakest preconditions over go/ssa, SMT: z3 5.1/4.8, cvc5)"
TRUST = "Trusted: go/ssa front end, the govc VC generator, SMT solvers and the prelude axioms in /verif/spec; assumed contracts of library functions are listed in the evidence file. "
CHECKS = {
 "C13": ("Proof over commands.fsckPointer against a ghost file system and hash model (an object is reported intact exactly when its file exists and hex(SHA-256(content)) equals its id, or it cannot be opened and the pointer says it is empty), the per-object callback of doFsckObjects (records exactly the objects that are not intact) and fsckCommand (success is reported only when no corrupt object or pointer was found; corrupt objects are moved with os.Rename from their object path, never removed, and not at all under --dry-run).",
         "os.Open/io.Copy/sha256/hex are assumed contracts over the ghost file system; the scanners are assumed to report every referenced pointer; objpath is defined by the assumed contract of fs.(*Filesystem).ObjectPathname; output helpers (Print, Exit...) are assumed to have no effect on state; the pointer half (canonical / non-pointer classification in doFsckPointers) is not yet under contract."),
 "C15": ("Proof over the retry logic of the transfer queue: (*retryCounter).CanRetry (budget test is count < MaxRetries), canRetryObject/canRetryObjectLater (exact characterisation: budget left AND the error is retriable / retriable-later, with the server's time), every retry sink (the three enqueueRetry call sites of enqueueAndCollectRetriesFor and both sends on the retries channel in handleTransferResult are reached only with budget left and a retriable error; a deferred object carries the Retry-After time), the retry bookkeeping closure (server time wins, then explicit time), (batch).Concat (the batch attempted next only holds objects whose ready time has passed), and action expiry ((ActionSet).Get, (*Transfer).Rel, (*Action).IsExpiredWithin, tools.IsExpiredAtOrIn: an action expiring within five seconds is never handed out).",
         "time is an uninterpreted order (time_after/time_add); error classification is an assumed contract over uninterpreted predicates; overlap of two transfers of one object and real elapsed time are not decided; the exponential back-off bound of ReadyTime is not yet under contract."),
 "C20": ("Proof over lfs.(*Hook).matchesCurrent against the ghost file system (a hook is called upgradable only if its whole normalised content is blank, the current text or one of the historical generated texts; a match only if it is the current text; an error is never combined with upgradable), Upgrade and Uninstall (the write / RemoveAll sinks are reached only for such a file, and RemoveAll gets exactly the hook path), Install (writes only under --force or when no file exists, otherwise goes through Upgrade) and write (the file becomes the current text plus LF).",
         "os.Open/io.ReadAll/os.WriteFile/os.RemoveAll/os.Stat are assumed contracts over the ghost file system; normalisation (tools.Undent, TrimSpace) is uninterpreted; the generated texts are by definition Hook.Contents and Hook.upgradeables; the filter.lfs.* settings half (lfs.Attribute) and the idempotence / restore clauses are not yet under contract."),
 "C17": ("Proof over the real code of creds.(Creds).buffer: the buffer starts with exactly the two capability lines, nothing is written outside the per-item step, and every completed step appends exactly key=value LF for a value free of LF, NUL and (under protection) CR; an unsafe value returns an error and no buffer.",
         "bytes.Buffer.Write appends its argument (assumed); strings.Contains is an uninterpreted predicate; `git credential` itself is outside the proof."),
 "C02": ("Proof over the basic HTTP download path against a ghost file system and hash model: (*basicDownloadAdapter).DoTransfer (temp file outside the object store; a stale partial file is re-hashed before it is resumed; download() is entered under its precondition), download() itself (every fallback arm - 416, non-206, bad Content-Range, server ignoring Range - re-establishes 'file content = bytes absorbed by the hasher'; success is reported only after the hash of everything written equals the OID and the rename into the object path succeeded, or a hash-valid object is already there; on every error return the final path is untouched; explicit frame), tools.(*HashingReader).Read/Hash/constructors (what is delivered without error is hashed, in order) and tools.RenameFileCopyPermissions.",
         "assumed: os/io file operations over the ghost file system, the copy lemma for tools.CopyWithCallback (derived from the verified Read contract), request construction/sending as frames, the rely condition that other processes only place hash-valid files in the store, no modification of the temp file by others between hashing and rename. The ssh and custom adapters are not yet under contract."),
 "C10": ("Proof over lfshttp.newRequestForRetry (the request built for a redirect carries Authorization only if URL.Host is unchanged; https is never turned into http; header keys stay canonical), (*Client).DoWithRedirect (carries that to its result and bounds the chain), the recursion measures of (*lfshttp.Client).doWithRedirects and of the lfsapi doWithAuth/doWithCreds cycle (every turn extends the chain, which is cut at three requests), lfsapi.getCredURLForAPI (credentials are requested for the request's own scheme and host:port) and setRequestAuthFromURL (userinfo used only for the same origin).",
         "net/http and net/url are assumed contracts (NewRequest returns a fresh request with an empty header, Header.Set stores under the canonical key); canonical header keys of incoming requests are an assumed type invariant; tracing/handleResponse/ExtraHeadersFor are assumed frames; getCreds' use of the helper result and credential helper programs are outside the proof."),
 "C11": ("Proof over config.readGitConfig (both sinks: the value map and the extension table), keyIsUnsafe/safeKeys, (*GitFetcher).Get and git.(*Configuration).Sources/FileSource/RevisionSource/Source/ParseConfigLines: from a source restricted to safe keys only keys on the documented allow-list reach the value map and no extension property changes; values are appended in source order, Git's own configuration is the last source and Get returns the last value. Two obligations (lfs.extension.<n>.priority) are recorded known findings.",
         "the output format of `git config -l`; the subprocess boundary (gitConfig, IsBare) is an assumed contract; key case-folding is an uninterpreted function."),
}
NA = {
 "C19": "deciding oracle is Git's attribute matcher plus replace-all string rewriting; no contract on git-lfs functions within reach of the verifier expresses it (DESIGN.md §7)",
}
def main():
    props=[json.loads(l)["id"] for l in open("/verif/properties.jsonl")]
    checks=[]
    for pid in props:
        if pid in CHECKS:
            text,note=CHECKS[pid]
            checks.append({"property_id":pid,"quick_cmd":"bin/govc check %s --tier quick"%pid,"thorough_cmd":"bin/govc check %s --tier thorough"%pid,
              "evidence_file":"/verif/evidence/%s.json"%pid,"replay_cmd_template":"bin/govc replay {path}","engine":"govc",
              "level_claimed":{"category":"proof","text":text,"design_ref":"DESIGN.md §6 "+pid},"level_note":TRUST+note,"technique":TECH})
    na=[]
    for pid in props:
        if pid not in CHECKS:
            na.append({"property_id":pid,"reason":NA.get(pid,"not built yet in this session: no contract set for this property has been discharged so far (work in progress, see DESIGN.md §8)")})
    hooks=json.load(open("/verif/MANIFEST.json"))["hooks"]
    import subprocess
    commits=subprocess.run(["git","-C","/repo","log","--format=%h %s","0bace51..HEAD"],capture_output=True,text=True).stdout.strip().split("\n")
    hooks["source_commits"]=[c.split()[0] for c in commits if c and " verif:" in " "+c]
    m={"version":1,
       "setup_cmd":"cd /verif/govc && GOFLAGS=-mod=mod GOPROXY=off GOSUMDB=off GOTOOLCHAIN=local go build -o /verif/bin/govc .",
       "hooks":hooks,
       "engines":[{"name":"govc","path":"/verif/govc","serves_properties":sorted(CHECKS),"kind_free_text":"contract-based deductive verifier for Go written here: go/ssa front end, passive weakest-precondition VC generation with loop invariants, frame obligations and ghost state, SMT portfolio (z3 5.1, z3 4.8, cvc5), model-driven replay on the real code through go test -overlay"}],
       "checks":checks,"not_applicable":na,
       "notes":"Contracts live in /repo/<pkg>/verif_contracts.go (comment-only, build tag verif) and /verif/spec/*.spec (assumed library contracts). known_findings.txt lists recorded findings and fix: commits."}
    json.dump(m,open("/verif/MANIFEST.json","w"),indent=1)
main()
