#!/usr/bin/env python3
"""Must-fail / must-pass self test of the checks.
usage: selftest.py [Cxx ...]     (default: all properties in selftest/mutants.json)
Each mutant is a textual replacement applied to a scratch worktree of /repo HEAD (under
$VERIF_SCRATCH or /var/tmp, removed afterwards); the property's check is run with --repo <scratch>.
expect=fail: the check must print a VIOLATION for the property; expect=pass: it must not.
Also applies every /verif/seeded/<name>/patch.diff (expect fail for meta.property)."""
import json,os,subprocess,sys,shutil,time
V=os.environ.get("VERIF_DIR","/verif"); scratch_root=os.environ.get("VERIF_SCRATCH","/var/tmp")
muts=json.load(open(V+"/selftest/mutants.json"))
want=set(sys.argv[1:])
last=int(os.environ.get("SELFTEST_LAST","0"))  # only the last N mutants of the list, no seeded changes
if last: muts=muts[-last:]
wt=os.path.join(scratch_root,"govc-selftest-%d"%os.getpid())
def sh(*a,**k): return subprocess.run(a,capture_output=True,text=True,**k)
sh("git","-C","/repo","worktree","add","--detach","-q",wt,"HEAD")
results=[]
def run_check(pid):
    r=sh(V+"/bin/govc","check",pid,"--repo",wt,"--tier","quick","--verif",V,env=dict(os.environ,VERIF_NO_EVIDENCE="1"))
    viol=[l for l in r.stdout.split("\n") if l.startswith("VIOLATION property="+pid)]
    return viol,r
try:
    for m in muts:
        pid=m["property"]
        if want and pid not in want: continue
        path=os.path.join(wt,m["file"]); src=open(path).read()
        if m["old"] not in src:
            results.append((pid,m["name"],"STALE (pattern not found)")); continue
        open(path,"w").write(src.replace(m["old"],m["new"],1))
        b=sh("go","build","./...",cwd=wt,env=dict(os.environ,GOFLAGS="-mod=mod",GOPROXY="off",GOSUMDB="off",GOTOOLCHAIN="local"))
        if b.returncode!=0:
            results.append((pid,m["name"],"DOES NOT COMPILE")); open(path,"w").write(src); continue
        t=time.time(); viol,r=run_check(pid); dt=time.time()-t
        open(path,"w").write(src)
        ok=(len(viol)>0)==(m["expect"]=="fail")
        results.append((pid,m["name"],("ok" if ok else "WRONG")+" expect=%s violations=%d %.0fs %s"%(m["expect"],len(viol),dt,(viol[0].split("obligation=")[-1] if viol else ""))))
    for name in sorted(os.listdir(V+"/seeded")) if os.path.isdir(V+"/seeded") and not last else []:
        meta=json.load(open(V+"/seeded/%s/meta.json"%name)); pid=meta["property"]
        if want and pid not in want: continue
        pf=V+"/seeded/%s/patch_rebased.diff"%name
        if not os.path.exists(pf): pf=V+"/seeded/%s/patch.diff"%name
        a=sh("git","-C",wt,"apply",pf)
        if a.returncode!=0:
            results.append((pid,"seeded/"+name,"PATCH DOES NOT APPLY "+a.stderr.strip()[:80])); continue
        viol,r=run_check(pid)
        sh("git","-C",wt,"checkout","--",".")
        gap=str(meta.get("note","")).startswith("NOT caught")
        if gap:
            results.append((pid,"seeded/"+name,"ok (recorded gap: not caught, see meta.json)" if not viol else "ok (recorded as a gap but caught now: update meta.json) violations=%d"%len(viol)))
        else:
            results.append((pid,"seeded/"+name,("ok" if viol else "MISSED")+" violations=%d %s"%(len(viol),(viol[0].split("obligation=")[-1] if viol else ""))))
finally:
    sh("git","-C","/repo","worktree","remove","--force",wt)
bad=0
for pid,name,res in results:
    print("%-4s %-40s %s"%(pid,name,res))
    if not res.startswith("ok"): bad+=1
print("selftest: %d cases, %d problems"%(len(results),bad))
sys.exit(1 if bad else 0)
